"""Sidecar contracts: the 12 `columns_used_from_sources` methods of view_representations.py (property C10).

Spec function need_i(N, U): the columns of source i that may influence the rows, or the values of the requested
columns U, of node N -- written from the operator documentation (README / docstrings), not from the code:
  extend         requested pass-through columns, partition/order columns, columns read by the REQUESTED assignments
  project        group_by columns and columns read by the requested aggregates
  select_rows    requested columns and the columns the row filter reads
  select/drop    requested columns (that exist in the source)
  order_rows     requested columns and the order columns
  map/rename     pre-images of the requested columns (+ nothing for deleted ones)
  natural_join   requested columns present in that source, and that source's join keys
  concat_rows    requested columns other than the id column
  convert_records  every column the record map needs
Obligation per class:  need_i(N,U) ⊆ columns_used_from_sources(U)[i] ⊆ columns(source_i), and one entry per source.
using=None means "all produced columns".
"""
import z3
from pyvc.api import Contract, T, VDict, VList, VNone, VScalar, VSet, VStr, VTuple, forall, fresh_name
from contracts.vr_common import F, EXPR, COLS, NODE, cols_fn, register_classes, wf_node, colset, source

USING = T.opt(T.set(T.atom))


def accumulate_cols_invariant(setvar: str, dictvar: str):
    """loop `for k, o in D.items(): o.get_column_names(S)`: S = S_pre ∪ cols of the values already visited."""
    def inv(c):
        S = c.S
        cur = c.var(setvar).arr
        pre = c.pre_var(setvar).arr
        D = c.var(dictvar) if dictvar in c.st.env else None
        keys = c.seq  # enumeration of the dict's keys
        cf = cols_fn(S)
        x = z3.Const("acc_c", S.Atom)
        k = z3.Const("acc_k", S.Atom)
        dval = c.ghost_dict.val
        visited = lambda kk: z3.And(keys.mem[kk], keys.idx_fn(kk) < c.i)
        return [
            ("accumulated-superset", z3.ForAll([k, x], z3.Implies(z3.And(visited(k), cf(dval[k])[x]), cur[x]))),
            ("accumulated-contains-start", z3.IsSubset(pre, cur)),
            ("accumulated-nothing-else", z3.ForAll([x], z3.Implies(cur[x], z3.Or(pre[x], z3.Exists([k], z3.And(visited(k), cf(dval[k])[x])))))),
        ]
    return inv


def register(reg):
    register_classes(reg)
    import contracts.c24_orderedset as c24
    if "OrderedSet" not in reg.classes:
        c24.register(reg)

    def result_sets(c, n):
        """the returned list must have exactly n entries; gives their member sets."""
        r = c.result
        if not isinstance(r, VTuple) or len(r.items) != n:
            return None
        return [c.eng.set_of(x, c.st).arr for x in r.items]

    def U_of(c, node):
        """requested columns as a set: `using`, or all produced columns when using is None."""
        if isinstance(c.using, VNone):
            return colset(c, node)
        return c.using.arr

    def pre(c):
        out = [("self-well-formed", wf_node(c, c.self))]
        return out

    def std(c, n_sources, need_fns, extra_pre=None):
        S = c.S
        if c.raised:
            return [("no-exception", z3.BoolVal(False))]
        rs = result_sets(c, n_sources)
        if rs is None:
            return [("one-entry-per-source", z3.BoolVal(False))]
        out = [("one-entry-per-source", z3.BoolVal(True))]
        for i in range(n_sources):
            src = source(c, c.self, i)
            scols = colset(c, src)
            x = z3.Const("need_c", S.Atom)
            out.append(("source%d-needed-columns-are-reported" % i, z3.ForAll([x], z3.Implies(z3.And(scols[x], need_fns[i](x)), rs[i][x]))))
            out.append(("source%d-reported-columns-exist" % i, z3.IsSubset(rs[i], scols)))
        return out

    def using_pre(c):
        """callers (columns_used_implementation_) only ask for produced columns"""
        out = [("self-well-formed", wf_node(c, c.self))]
        if not isinstance(c.using, VNone):
            out.append(("using-are-produced-columns", z3.IsSubset(c.using.arr, colset(c, c.self))))
        return out

    def n_sources(c, n):
        return c.field(c.self, "sources").n == n

    def mk(cls, nsrc, need_builder, extra_requires=None, loops=None):
        def requires(c):
            out = using_pre(c) + [("source-count", n_sources(c, nsrc))]
            for i in range(nsrc):
                out.append(("source%d-well-formed" % i, wf_node(c, source(c, c.self, i))))
                out.append(("source%d-allocated" % i, c.eng.allocated(c.st, source(c, c.self, i))))
            if extra_requires:
                out += extra_requires(c)
            return out

        def ensures(c):
            return std(c, nsrc, need_builder(c) if not c.raised else None)

        reg.add(Contract(key="%s.columns_used_from_sources" % cls, file=F, qualname="%s.columns_used_from_sources" % cls, cls=cls,
                         params={"self": T.obj(cls), "using": USING}, requires=requires, ensures=ensures, loops=loops or {},
                         modifies=(("OrderedSet", "impl"),)))

    # ---- TableDescription / SQLNode: no sources
    mk("TableDescription", 0, lambda c: [])
    mk("SQLNode", 0, lambda c: [])

    # ---- extend
    def extend_need(c):
        S = c.S
        U = U_of(c, c.self)
        ops = c.field(c.self, "ops")
        cf = cols_fn(S)
        part = c.eng.list_mem(c.field(c.self, "partition_by"), c.st)
        order = c.eng.list_mem(c.field(c.self, "order_by"), c.st)
        k = z3.Const("need_k", S.Atom)
        return [lambda x: z3.Or(z3.And(U[x], z3.Not(ops.dom[x])), part[x], order[x],
                               z3.Exists([k], z3.And(U[k], ops.dom[k], cf(ops.val[k])[x])))]

    def extend_loop(c):
        c.ghost_dict = c.pre_var("subops")
        return accumulate_cols_invariant("columns_we_take", "subops")(c)

    def extend_requires(c):
        """constructor facts (ExtendNode.__init__ raises otherwise): window columns exist and are never assigned"""
        ops = c.field(c.self, "ops")
        scols = colset(c, source(c, c.self, 0))
        out = []
        for fld in ("partition_by", "order_by", "reverse"):
            m = c.eng.list_mem(c.field(c.self, fld), c.st)
            out.append(("%s-columns-not-assigned" % fld, z3.SetIntersect(m, ops.dom) == z3.K(c.S.Atom, z3.BoolVal(False))))
            out.append(("%s-columns-exist" % fld, z3.IsSubset(m, scols)))
        return out

    mk("ExtendNode", 1, extend_need, extra_requires=extend_requires, loops={0: extend_loop})

    # ---- project
    def project_need(c):
        S = c.S
        U = U_of(c, c.self)
        ops = c.field(c.self, "ops")
        cf = cols_fn(S)
        grp = c.eng.list_mem(c.field(c.self, "group_by"), c.st)
        k = z3.Const("need_k", S.Atom)
        return [lambda x: z3.Or(grp[x], z3.Exists([k], z3.And(U[k], ops.dom[k], cf(ops.val[k])[x])))]

    def project_loop(c):
        c.ghost_dict = c.pre_var("subops")
        return accumulate_cols_invariant("columns_we_take", "subops")(c)

    def project_requires(c):
        """constructor facts: grouping columns and columns read by the aggregates exist in the source"""
        S = c.S
        ops = c.field(c.self, "ops")
        cf = cols_fn(S)
        scols = colset(c, source(c, c.self, 0))
        k, x = z3.Const("pr_k", S.Atom), z3.Const("pr_x", S.Atom)
        return [("group-columns-exist", z3.IsSubset(c.eng.list_mem(c.field(c.self, "group_by"), c.st), scols)),
                ("aggregate-arguments-exist", z3.ForAll([k, x], z3.Implies(z3.And(ops.dom[k], cf(ops.val[k])[x]), scols[x])))]

    mk("ProjectNode", 1, project_need, extra_requires=project_requires, loops={0: project_loop})

    # ---- select_rows
    def select_rows_need(c):
        U = U_of(c, c.self)
        cf = cols_fn(c.S)
        e = c.field(c.self, "expr")
        return [lambda x: z3.Or(U[x], cf(e.z)[x])]

    def select_rows_requires(c):
        """constructor: decision_columns = cols(expr)"""
        return [("decision-columns-are-the-filter's-columns", c.field(c.self, "decision_columns").arr == cols_fn(c.S)(c.field(c.self, "expr").z)),
                ("filter-columns-exist (the filter was parsed against the source's columns)", z3.IsSubset(cols_fn(c.S)(c.field(c.self, "expr").z), colset(c, source(c, c.self, 0)))),
                ("same-columns-as-source", colset(c, c.self) == colset(c, source(c, c.self, 0)))]

    mk("SelectRowsNode", 1, select_rows_need, extra_requires=select_rows_requires)

    # ---- select_columns / drop_columns
    mk("SelectColumnsNode", 1, lambda c: [lambda x: U_of(c, c.self)[x]],
       extra_requires=lambda c: [("produced-columns-are-the-selection", colset(c, c.self) == c.eng.list_mem(c.field(c.self, "column_selection"), c.st)),
                                 ("selection-exists-in-source", z3.IsSubset(colset(c, c.self), colset(c, source(c, c.self, 0))))])
    mk("DropColumnsNode", 1, lambda c: [lambda x: U_of(c, c.self)[x]],
       extra_requires=lambda c: [("produced-columns-are-source-minus-deletions", colset(c, c.self) == z3.SetDifference(colset(c, source(c, c.self, 0)), c.eng.list_mem(c.field(c.self, "column_deletions"), c.st)))])

    # ---- order_rows
    def order_need(c):
        U = U_of(c, c.self)
        oc = c.eng.list_mem(c.field(c.self, "order_columns"), c.st)
        return [lambda x: z3.Or(U[x], oc[x])]

    mk("OrderRowsNode", 1, order_need,
       extra_requires=lambda c: [("same-columns-as-source", colset(c, c.self) == colset(c, source(c, c.self, 0))),
                                 ("order-columns-exist", z3.IsSubset(c.eng.list_mem(c.field(c.self, "order_columns"), c.st), colset(c, c.self)))])

    # ---- natural_join
    def join_need(c):
        U = U_of(c, c.self)
        ka = c.eng.list_mem(c.field(c.self, "on_a"), c.st)
        kb = c.eng.list_mem(c.field(c.self, "on_b"), c.st)
        return [lambda x: z3.Or(U[x], ka[x]), lambda x: z3.Or(U[x], kb[x])]

    mk("NaturalJoinNode", 2, join_need,
       extra_requires=lambda c: [("produced-columns-are-the-union", colset(c, c.self) == z3.SetUnion(colset(c, source(c, c.self, 0)), colset(c, source(c, c.self, 1))))])

    # ---- concat_rows
    def concat_need(c):
        U = U_of(c, c.self)
        idc = c.field(c.self, "id_column").z
        return [lambda x: z3.And(U[x], x != idc), lambda x: z3.And(U[x], x != idc)]

    mk("ConcatRowsNode", 2, concat_need)

    # ---- convert_records: every column the record map needs
    def convert_need(c):
        rm = c.field(c.self, "record_map")
        needed = c.eng.list_mem(c.field(rm, "columns_needed"), c.st)
        return [lambda x: needed[x]]

    mk("ConvertRecordsNode", 1, convert_need,
       extra_requires=lambda c: [("record-map-columns-exist", z3.IsSubset(c.eng.list_mem(c.field(c.field(c.self, "record_map"), "columns_needed"), c.st), colset(c, source(c, c.self, 0)))),
                                 ("record-map-allocated", c.eng.allocated(c.st, c.field(c.self, "record_map")))])

    # ---- rename / map: pre-images of the requested columns
    def rename_need(c):
        S = c.S
        U = U_of(c, c.self)
        rm = c.field(c.self, "column_remapping")  # new -> old
        k = z3.Const("need_k", S.Atom)
        return [lambda x: z3.Or(z3.And(U[x], z3.Not(rm.dom[x])), z3.Exists([k], z3.And(U[k], rm.dom[k], rm.val[k] == x)))]

    def rename_requires(c):
        S = c.S
        rm = c.field(c.self, "column_remapping")
        scols = colset(c, source(c, c.self, 0))
        k = z3.Const("rn_k", S.Atom)
        x = z3.Const("rn_x", S.Atom)
        prod = colset(c, c.self)
        return [("renamed-from-existing-columns", z3.ForAll([k], z3.Implies(rm.dom[k], z3.And(scols[rm.val[k]], rm.val[k] != S.NONE)))),
                ("produced-columns-are-the-renamed-source-columns", z3.ForAll([x], prod[x] == z3.Or(z3.And(scols[x], z3.Not(z3.Exists([k], z3.And(rm.dom[k], rm.val[k] == x)))), rm.dom[x])))]

    mk("RenameColumnsNode", 1, rename_need, extra_requires=rename_requires)

    def map_need(c):
        S = c.S
        U = U_of(c, c.self)
        rm = c.field(c.self, "column_remapping")  # old -> new
        return [lambda x: z3.Or(z3.And(U[x], z3.Not(rm.dom[x])), z3.And(rm.dom[x], U[rm.val[x]]))]

    def map_requires(c):
        S = c.S
        rm = c.field(c.self, "column_remapping")
        dels = c.eng.list_mem(c.field(c.self, "column_deletions"), c.st)
        scols = colset(c, source(c, c.self, 0))
        k, k2 = z3.Const("mp_k", S.Atom), z3.Const("mp_k2", S.Atom)
        x = z3.Const("mp_x", S.Atom)
        prod = colset(c, c.self)
        return [("mapped-columns-exist", z3.ForAll([k], z3.Implies(rm.dom[k], z3.And(scols[k], rm.val[k] != S.NONE)))),
                ("deleted-columns-exist", z3.IsSubset(dels, scols)),
                ("mapping-is-injective", z3.ForAll([k, k2], z3.Implies(z3.And(rm.dom[k], rm.dom[k2], rm.val[k] == rm.val[k2]), k == k2))),
                ("no-collisions (constructor): a new name that exists in the source is itself mapped away or deleted", z3.ForAll([k], z3.Implies(z3.And(rm.dom[k], scols[rm.val[k]]), rm.dom[rm.val[k]]))),
                ("produced-columns-are-the-mapped-source-columns", z3.ForAll([x], prod[x] == z3.Or(z3.And(scols[x], z3.Not(rm.dom[x]), z3.Not(dels[x])), z3.Exists([k], z3.And(rm.dom[k], z3.Not(dels[k]), rm.val[k] == x)))))]

    mk("MapColumnsNode", 1, map_need, extra_requires=map_requires)


KEYS = ["%s.columns_used_from_sources" % c for c in ("TableDescription", "SQLNode", "ExtendNode", "ProjectNode", "SelectRowsNode", "SelectColumnsNode", "DropColumnsNode",
                                                      "OrderRowsNode", "NaturalJoinNode", "ConcatRowsNode", "ConvertRecordsNode", "RenameColumnsNode", "MapColumnsNode")]
