"""C14: the identifier quoting of SQLModel (all dialects inherit it).

quote_identifier(identifier) raises ValueError exactly when the dialect's identifier quote occurs in the identifier, and otherwise returns
quote + identifier + quote: the identifier is carried verbatim, and -- because it does not contain the quote -- a lexer that reads up to the
next quote recovers exactly it (that last step is a paper argument: strings are uninterpreted here; `a in b` is an uninterpreted relation and
`+` an uninterpreted cancellative concatenation).  quote_string (re.sub doubling) and value_to_sql are NOT under contract: undoubling after
doubling needs induction over the string, which neither solver does; they stay in the bounded run.
"""
import z3
from pyvc.api import Contract, T, VDict, VList, VNone, VOpt, VPy, VScalar, VSet, VStr, VTuple, fresh_name, veq

F = "data_algebra/sql_model.py"


def register(reg):
    reg.add_class("SQLModel", {"identifier_quote": T.atom, "string_quote": T.atom}, file=F)
    SM = T.obj("SQLModel")

    def ens(c):
        S = c.S
        contains = S.func("str_contains", S.Atom, S.Atom, z3.BoolSort())  # str_contains(haystack, needle)
        q = c.field(c.self, "identifier_quote").z
        ident = c.identifier.z
        if c.raised == "ValueError":
            return [("rejected-only-when-the-identifier-contains-the-quote-character", contains(ident, q))]
        if c.raised:
            return []
        cat = S.func("str_concat", S.Atom, S.Atom, S.Atom)
        return [("accepted-only-when-the-identifier-is-free-of-the-quote-character", z3.Not(contains(ident, q))),
                ("the-identifier-is-carried-verbatim-between-two-quote-characters", c.result.z == cat(cat(q, ident), q))]

    reg.add(Contract(key="SQLModel.quote_identifier", file=F, qualname="SQLModel.quote_identifier", cls="SQLModel", params={"self": SM, "identifier": T.atom}, returns=T.atom,
                     ensures=ens, allow_raises=True, entry_assume=lambda c: [c.field(c.self, "identifier_quote").z != c.S.str_const("")]))


KEYS = ["SQLModel.quote_identifier"]
