"""C22: SchemaRaises.check_args / check_return raise TypeError exactly on a schema violation (and never when the switch is off).

`_check_spec(expected_type, observed_value)` is abstracted: it returns None exactly when conforms(spec, value) (an uninterpreted relation; its
body -- isinstance tests, the data-frame column walk -- stays in the bounded run).  PROVED from the real bodies: how check_args matches positional
and keyword arguments to the declared specifications, that a declared argument that is not supplied is a violation, that every violation (and
nothing else) ends in TypeError, and that nothing is checked when the switch is off or no specification was declared.
"""
import z3
from pyvc.api import Contract, T, VDict, VList, VNone, VOpt, VPy, VScalar, VSet, VStr, VTuple, fresh_name, veq
from contracts.vr_common import COLS

F = "data_algebra/data_schema.py"
Raised = __import__("pyvc.engine", fromlist=["Raised"]).Raised
SPEC = T.opaque("Spec")
VAL = T.opaque("Val")


def register(reg):
    reg.add_class("SchemaRaises", {"arg_specs": T.opt(T.dict(T.atom, SPEC)), "return_spec": SPEC}, file=F)
    SR = T.obj("SchemaRaises")

    def switch_on(S):
        return z3.Const("schema_check_switch_is_on", z3.BoolSort())

    reg.add(Contract(key="SchemaCheckSwitch", params={}, assumed=True, apply=lambda eng, st, argmap, node: [(st, VScalar(z3.Const("the_switch", eng.S.sort("Switch")), T.opaque("Switch")))],
                     note="SchemaCheckSwitch() is the process-wide singleton"))
    reg.opaque_methods[("Switch", "is_on")] = Contract(key="Switch.is_on", params={}, assumed=True,
                                                       apply=lambda eng, st, argmap, node: [(st, VScalar(switch_on(eng.S), T.bool))])

    def conforms(S):
        return S.func("value_conforms_to_specification", S.sort("Spec"), S.sort("Val"), z3.BoolSort())

    def check_spec_apply(eng, st, argmap, node):
        S = eng.S
        ok = conforms(S)(argmap["expected_type"].z, argmap["observed_value"].z)
        t, f = eng.branch(st, ok, node)
        out = []
        if t is not None:
            out.append((t, VNone()))
        if f is not None:
            m = z3.Const(fresh_name("issue_text"), S.Atom)
            f.assume(m != S.NONE)
            out.append((f, VScalar(m, T.atom)))
        eng.registry.note("assumed: _check_spec(spec, value) returns None exactly when the value conforms to the specification (its body is exercised in the bounded run)")
        return out

    reg.add(Contract(key="SchemaRaises._check_spec", cls="SchemaRaises", params={"self": SR, "expected_type": SPEC, "observed_value": VAL}, assumed=True, apply=check_spec_apply))

    # ---------------------------------------------------------------- check_return
    def ret_ens(c):
        S = c.S
        viol = z3.And(switch_on(S), z3.Not(conforms(S)(c.field(c.self, "return_spec").z, c.return_value.z)))
        if c.raised == "TypeError":
            return [("TypeError-only-for-a-return-value-that-violates-the-specification-with-the-switch-on", viol)]
        if c.raised:
            return [("no-other-exception", z3.BoolVal(False))]
        return [("returns-normally-only-without-a-violation-or-with-the-switch-off", z3.Not(viol))]

    reg.add(Contract(key="SchemaRaises.check_return", file=F, qualname="SchemaRaises.check_return", cls="SchemaRaises",
                     params={"self": SR, "fname": T.atom, "return_value": VAL}, ensures=ret_ens, allow_raises=True))

    # ---------------------------------------------------------------- check_args
    def pos_bad(c, specs, j):
        """positional argument j is declared and violates its specification"""
        nm = c.arg_names.arr[j]
        return z3.And(specs.dom[nm], z3.Not(conforms(c.S)(specs.val[nm], c.args.arr[j])))

    def kw_bad(c, specs, k):
        """declared argument k is not positional and is missing or violates its specification"""
        pos = z3.Int(fresh_name("p"))
        is_pos = z3.Exists([pos], z3.And(0 <= pos, pos < c.args.n, c.arg_names.arr[pos] == k))
        return z3.And(specs.dom[k], z3.Not(is_pos), z3.Or(z3.Not(c.kwargs.dom[k]), z3.Not(conforms(c.S)(specs.val[k], c.kwargs.val[k]))))

    def specs_of(c):
        a = c.field(c.self, "arg_specs")
        return a

    def loop0(c):
        specs = specs_of(c).val
        seen = c.eng.set_of(c.var("seen"), c.st, None)
        msgs = c.eng.list_of(c.var("msgs"), c.st)
        j = z3.Int(fresh_name("j"))
        k = z3.Const(fresh_name("k"), c.S.Atom)
        return [("seen-are-the-names-of-the-positional-arguments-visited", z3.ForAll([k], seen.arr[k] == z3.Exists([j], z3.And(0 <= j, j < c.i, c.arg_names.arr[j] == k)))),
                ("a-message-exactly-when-a-visited-positional-argument-violates-its-specification", z3.And(msgs.n >= 0, (msgs.n > 0) == z3.Exists([j], z3.And(0 <= j, j < c.i, pos_bad(c, specs, j)))))]

    def loop1(c):
        specs = specs_of(c).val
        seen = c.eng.set_of(c.var("seen"), c.st, None)
        msgs = c.eng.list_of(c.var("msgs"), c.st)
        j = z3.Int(fresh_name("j"))
        k = z3.Const(fresh_name("k"), c.S.Atom)
        keys = c.seq
        return [("seen-is-unchanged", z3.ForAll([k], seen.arr[k] == z3.Exists([j], z3.And(0 <= j, j < c.args.n, c.arg_names.arr[j] == k)))),
                ("a-message-exactly-for-a-positional-violation-or-a-visited-declared-argument-that-is-missing-or-violating",
                 z3.And(msgs.n >= 0, (msgs.n > 0) == z3.Or(z3.Exists([j], z3.And(0 <= j, j < c.args.n, pos_bad(c, specs, j))),
                                                             z3.Exists([k], z3.And(keys.mem[k], keys.idx_fn(k) < c.i, kw_bad(c, specs, k))))))]

    def args_ens(c):
        S = c.S
        a = specs_of(c)
        j = z3.Int(fresh_name("j"))
        k = z3.Const(fresh_name("k"), S.Atom)
        some = z3.Or(z3.Exists([j], z3.And(0 <= j, j < c.args.n, pos_bad(c, a.val, j))), z3.Exists([k], kw_bad(c, a.val, k)))
        viol = z3.And(switch_on(S), z3.Not(a.is_none), some)
        if c.raised == "TypeError":
            return [("TypeError-only-when-a-declared-argument-is-missing-or-violates-its-specification-with-the-switch-on", viol)]
        if c.raised:
            return [("no-other-exception", z3.BoolVal(False))]
        return [("returns-normally-only-when-every-declared-argument-is-supplied-and-conforms-or-nothing-is-to-be-checked", z3.Not(viol))]

    reg.add(Contract(key="SchemaRaises.check_args", file=F, qualname="SchemaRaises.check_args", cls="SchemaRaises",
                     params={"self": SR, "arg_names": COLS, "fname": T.atom, "args": T.list(VAL), "kwargs": T.dict(T.atom, VAL)}, ensures=args_ens, allow_raises=True,
                     loops={0: loop0, 1: loop1}, local_types={"seen": T.set(T.atom), "msgs": T.list(T.atom)},
                     requires=lambda c: [("no-more-positional-arguments-than-parameters (python's own call binding)", c.args.n <= c.arg_names.n)]))


KEYS = ["SchemaRaises.check_return", "SchemaRaises.check_args"]
