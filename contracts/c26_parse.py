"""Sidecar contract: data_algebra/expr_parse.py::parse_assignments_in_context (property C26, rule
"using a column in the same extend that produces it" -- except to update itself).

Raw assignment values are an opaque sort: each is already a term, or a string handed to the lark parser, or a python
constant wrapped in Value.  term(raw) is the resulting term (assumed functions of the raw value); the contract says:
  ValueError  <=>  some assignment k reads a column c != k that is also assigned in this step;
  otherwise the result maps every key to term(raw), in the caller's key order.
"""
import z3
from pyvc.api import Contract, T, VDict, VList, VNone, VOpt, VPy, VScalar, VSet, VStr, VTuple, fresh_name, veq
from contracts.vr_common import EXPR, NODE, cols_fn, register_classes

F = "data_algebra/expr_parse.py"
RAW = T.opaque("RawOp")
Raised = __import__("pyvc.engine", fromlist=["Raised"]).Raised


def register(reg):
    register_classes(reg)

    def is_term(S):
        return S.func("raw_is_a_term", S.sort("RawOp"), z3.BoolSort())

    def is_str(S):
        return S.func("raw_is_a_string", S.sort("RawOp"), z3.BoolSort())

    def as_term(S):
        return S.func("raw_as_term", S.sort("RawOp"), S.sort("Expr"))

    def parsed(S):
        return S.func("lark_parse_of", S.sort("RawOp"), S.sort("Expr"))

    def valued(S):
        return S.func("Value_of", S.sort("RawOp"), S.sort("Expr"))

    def term(S, r):
        return z3.If(is_term(S)(r), as_term(S)(r), z3.If(is_str(S)(r), parsed(S)(r), valued(S)(r)))

    reg.globals[("isinstance", "RawOp", "PreTerm")] = lambda eng, st, v: is_term(eng.S)(v.z)
    reg.globals[("isinstance", "RawOp", "str")] = lambda eng, st, v: is_str(eng.S)(v.z)
    reg.globals[("isinstance", "Expr", "PreTerm")] = True

    def parse_apply(eng, st, argmap, node):
        eng.registry.note("assumed: parse_by_lark(text, columns) is a function of the text (or raises for text it rejects, e.g. unknown columns)")
        return [(st, VScalar(parsed(eng.S)(argmap["source_str"].z), EXPR)), (st.fork(), Raised("NameError"))]

    reg.add(Contract(key="data_algebra.parse_by_lark.parse_by_lark", params={"source_str": RAW}, assumed=True, apply=parse_apply))

    def value_apply(eng, st, argmap, node):
        S = eng.S
        r = valued(S)(argmap["value"].z)
        st.assume(cols_fn(S)(r) == z3.K(S.Atom, z3.BoolVal(False)))
        eng.registry.note("assumed: Value(constant) is a term that reads no column")
        return [(st, VScalar(r, EXPR))]

    reg.add(Contract(key="data_algebra.expr_rep.Value", params={"value": RAW}, assumed=True, apply=value_apply))

    def column_map_apply(eng, st, argmap, node):
        S = eng.S
        dom = z3.Const(fresh_name("colmap_dom"), z3.ArraySort(S.Atom, z3.BoolSort()))
        val = z3.Const(fresh_name("colmap_val"), z3.ArraySort(S.Atom, S.sort("Expr")))
        return [(st, VDict(dom, val, T.dict(T.atom, EXPR)))]

    reg.add(Contract(key="ViewRepresentation.column_map", cls="ViewRepresentation", params={"self": NODE}, assumed=True, apply=column_map_apply))

    # a raw value that already is a term is used as that term (python: the same object)
    reg.opaque_casts = dict(getattr(reg, "opaque_casts", {}))
    reg.opaque_casts[("RawOp", "Expr")] = lambda eng, z: as_term(eng.S)(z)
    gcn = reg.opaque_methods[("Expr", "get_column_names")]

    def raw_gcn_out(eng, st, argmap):
        s = argmap["columns_seen"]
        return VSet(z3.SetUnion(s.arr, cols_fn(eng.S)(as_term(eng.S)(argmap["self"].z))), s.ty)

    rc = Contract(key="RawOp.get_column_names", params={"columns_seen": T.set(T.atom)}, assumed=True, apply=lambda eng, st, argmap, node: [(st, VNone())])
    rc.out_params = {"columns_seen": raw_gcn_out}
    reg.opaque_methods[("RawOp", "get_column_names")] = rc

    def conflict(c):
        """some assignment reads another column that this same step assigns"""
        S = c.S
        ops = c.ops
        cf = cols_fn(S)
        k, x = z3.Const("pc_k", S.Atom), z3.Const("pc_x", S.Atom)
        return z3.Exists([k, x], z3.And(ops.dom[k], ops.dom[x], x != k, cf(term(S, ops.val[k]))[x]))

    def ens(c):
        S = c.S
        if c.raised == "ValueError":
            return [("ValueError-only-when-an-assignment-reads-a-column-produced-in-the-same-step", conflict(c))]
        if c.raised:
            return []
        r = c.result
        if not isinstance(r, VDict):
            return [("returns-the-parsed-assignments", z3.BoolVal(False))]
        k = z3.Const("pe_k", S.Atom)
        return [("accepted-only-without-same-step-use-and-produce (self-update allowed)", z3.Not(conflict(c))),
                ("every-assignment-parsed-under-its-own-key", z3.And(r.dom == c.ops.dom, z3.ForAll([k], z3.Implies(c.ops.dom[k], r.val[k] == term(S, c.ops.val[k])))))]

    def loop(c):
        S = c.S
        ops = c.params["ops"]
        newops = c.var("newops")
        cu = c.var("columns_used").arr
        keys = c.seq
        cf = cols_fn(S)
        k, x = z3.Const("pl_k", S.Atom), z3.Const("pl_x", S.Atom)
        visited = lambda kk: z3.And(keys.mem[kk], keys.idx_fn(kk) < c.i)
        return [("parsed-so-far", z3.And(z3.ForAll([k], newops.dom[k] == visited(k)), z3.ForAll([k], z3.Implies(visited(k), newops.val[k] == term(S, ops.val[k]))))),
                ("columns-used-so-far-superset", z3.ForAll([k, x], z3.Implies(z3.And(visited(k), cf(term(S, ops.val[k]))[x], x != k), cu[x]))),
                ("columns-used-so-far-nothing-else", z3.ForAll([x], z3.Implies(cu[x], z3.Exists([k], z3.And(visited(k), cf(term(S, ops.val[k]))[x], x != k)))))]

    # the term taken from a raw value that already is one
    def raw_to_expr_hook(reg):
        pass

    c = Contract(key="parse_assignments_in_context", file=F, qualname="parse_assignments_in_context", params={"ops": T.dict(T.atom, RAW), "view": NODE},
                 returns=T.dict(T.atom, EXPR), requires=lambda c: [("view-allocated", c.eng.allocated(c.st, c.view))], ensures=ens, loops={0: loop},
                 local_types={"newops": T.odict(T.atom, EXPR), "columns_used": T.set(T.atom), "used_here": T.set(T.atom)})
    reg.add(c)


KEYS = ["parse_assignments_in_context"]
