"""Sidecar contracts: data_algebra/OrderedSet.py (property C24).

Abstraction of an OrderedSet o:  mem(o) = keys of o.impl,  pos(o) : mem -> [0, n) a bijection (insertion rank).
Spec: a plain set plus first-insertion order.
"""
import z3
from pyvc.api import Contract, T, VDict, VList, VNone, VScalar, VSet, VTuple, forall, fresh_name

F = "data_algebra/OrderedSet.py"
OS = T.obj("OrderedSet")
IMPL = T.odict(T.atom, T.oatom)
SEQ = T.list(T.atom)


def inv(S, d: VDict):
    """representation invariant: insertion stamps are injective on the members and below the next stamp."""
    a = z3.Const("inv_a", S.Atom)  # fixed bound names: hypothesis and goal instances are syntactically identical
    b = z3.Const("inv_b", S.Atom)
    return z3.And(
        d.n >= 0,
        z3.ForAll([a], z3.Implies(d.dom[a], z3.And(0 <= d.pos[a], d.pos[a] < d.n))),
        z3.ForAll([a, b], z3.Implies(z3.And(d.dom[a], d.dom[b], d.pos[a] == d.pos[b]), a == b)),
    )


def first_of(c, lst: VList):
    """ghost: first(x) = least index of x in lst (defined for members)."""
    cache = c.st.ghost.setdefault("first_of", {})
    key = (lst.arr.get_id(), lst.n.get_id())
    if key in cache:
        return cache[key]
    S = c.S
    mem = c.eng.list_mem(lst, c.st)
    first = z3.Function(fresh_name("first"), S.Atom, z3.IntSort())
    x = z3.Const(fresh_name("x"), S.Atom)
    j = z3.Int(fresh_name("j"))
    c.st.assume(z3.ForAll([x], z3.Implies(mem[x], z3.And(0 <= first(x), first(x) < lst.n, lst.arr[first(x)] == x)), patterns=[first(x)]))
    c.st.assume(z3.ForAll([x, j], z3.Implies(z3.And(mem[x], 0 <= j, j < first(x)), lst.arr[j] != x), patterns=[z3.MultiPattern(first(x), lst.arr[j])]))
    j2 = z3.Int(fresh_name("j"))
    c.st.assume(z3.ForAll([j2], z3.Implies(z3.And(0 <= j2, j2 < lst.n), first(lst.arr[j2]) <= j2), patterns=[lst.arr[j2]]))
    idx = getattr(lst, "idx_fn", None)
    if idx is not None:
        # the list is a duplicate-free enumeration (of a set / dict): the first occurrence of x is its only one
        c.st.assume(z3.ForAll([x], z3.Implies(mem[x], first(x) == idx(x)), patterns=[first(x)]))
    cache = dict(cache)
    cache[key] = (mem, first)
    c.st.ghost["first_of"] = cache
    return mem, first


def frame_others(c, keep):
    """every OrderedSet object other than those in `keep` has an unchanged impl."""
    new = c.heap_parts("OrderedSet", "impl")
    old = c.heap_parts("OrderedSet", "impl", old=True)
    o = z3.Int(fresh_name("o"))
    cond = z3.And(*[o != k.z for k in keep]) if keep else z3.BoolVal(True)
    return z3.And(*[z3.ForAll([o], z3.Implies(cond, n[o] == p[o]), patterns=[n[o]]) for n, p in zip(new, old)])


def same_order(d1: VDict, d2: VDict, S):
    a = z3.Const(fresh_name("a"), S.Atom)
    b = z3.Const(fresh_name("b"), S.Atom)
    return z3.ForAll([a, b], z3.Implies(z3.And(d2.dom[a], d2.dom[b]), (d2.pos[a] < d2.pos[b]) == (d1.pos[a] < d1.pos[b])))


def ordered_by_first(c, d: VDict, lst: VList, upto=None):
    """for members a,b of d: pos[a] < pos[b] iff a first occurs before b in lst."""
    S = c.S
    mem, first = first_of(c, lst)
    a = z3.Const(fresh_name("a"), S.Atom)
    b = z3.Const(fresh_name("b"), S.Atom)
    return z3.ForAll([a, b], z3.Implies(z3.And(d.dom[a], d.dom[b]), (d.pos[a] < d.pos[b]) == (first(a) < first(b))))


def register(reg):
    reg.add_class("OrderedSet", {"impl": IMPL}, file=F)
    reg.iter_views["OrderedSet"] = lambda eng, st, obj: eng.read_field(st, obj, "impl")

    def self_inv(c):
        return [("self-invariant", inv(c.S, c.field(c.self, "impl")))]

    # ---------------------------------------------------------------- add
    def add_ens(c):
        S = c.S
        if c.raised:
            return [("no-exception", z3.BoolVal(False))]
        old, new = c.old_field(c.self, "impl"), c.field(c.self, "impl")
        e = c.elem.z
        x = z3.Const(fresh_name("x"), S.Atom)
        return [
            ("invariant", inv(S, new)),
            ("members", new.dom == z3.Store(old.dom, e, True)),
            ("old-positions-kept", z3.ForAll([x], z3.Implies(old.dom[x], new.pos[x] == old.pos[x]), patterns=[new.pos[x]])),
            ("new-element-goes-last", z3.Implies(z3.Not(old.dom[e]), z3.ForAll([x], z3.Implies(old.dom[x], new.pos[x] < new.pos[e])))),
            ("frame", frame_others(c, [c.self])),
        ]

    reg.add(Contract(key="OrderedSet.add", file=F, qualname="OrderedSet.add", cls="OrderedSet", params={"self": OS, "elem": T.atom},
                     requires=self_inv, ensures=add_ens, modifies=(("OrderedSet", "impl"),)))

    # ---------------------------------------------------------------- discard
    def discard_ens(c):
        S = c.S
        if c.raised:
            return [("no-exception", z3.BoolVal(False))]
        old, new = c.old_field(c.self, "impl"), c.field(c.self, "impl")
        return [
            ("invariant", inv(S, new)),
            ("members", new.dom == z3.Store(old.dom, c.elem.z, False)),
            ("relative-order-kept", same_order(old, new, S)),
            ("frame", frame_others(c, [c.self])),
        ]

    reg.add(Contract(key="OrderedSet.discard", file=F, qualname="OrderedSet.discard", cls="OrderedSet", params={"self": OS, "elem": T.atom},
                     requires=self_inv, ensures=discard_ens, modifies=(("OrderedSet", "impl"),)))

    # ---------------------------------------------------------------- __init__
    def init_ens(c):
        S = c.S
        if c.raised:
            return [("no-exception", z3.BoolVal(False))]
        new = c.field(c.self, "impl")
        out = [("invariant", inv(S, new)), ("frame", frame_others(c, [c.self]))]
        if isinstance(c.v, VNone):
            out.append(("members", new.dom == z3.K(S.Atom, z3.BoolVal(False))))
        else:
            mem, first = first_of(c, c.v)
            out.append(("members", new.dom == mem))
            out.append(("first-insertion-order", ordered_by_first(c, new, c.v)))
        return out

    def init_loop(c):
        S = c.S
        d = c.field(c.self, "impl")
        v = c.params["v"]
        mem, first = first_of(c, v)
        x = z3.Const(fresh_name("x"), S.Atom)
        # frame relative to function entry
        new = c.heap_parts("OrderedSet", "impl")
        old = c.heap_parts("OrderedSet", "impl", old=True)
        o = z3.Int(fresh_name("o"))
        fr = z3.And(*[z3.ForAll([o], z3.Implies(o != c.self.z, n[o] == p[o]), patterns=[n[o]]) for n, p in zip(new, old)])
        return [
            ("invariant", inv(S, d)),
            ("members-are-the-prefix", z3.ForAll([x], d.dom[x] == z3.And(mem[x], first(x) < c.i), patterns=[d.dom[x]])),
            ("order-is-first-occurrence", ordered_by_first(c, d, v)),
            ("frame", fr),
        ]

    reg.add(Contract(key="OrderedSet.__init__", file=F, qualname="OrderedSet.__init__", cls="OrderedSet", is_init=True,
                     params={"self": OS, "v": T.opt(SEQ)}, ensures=init_ens, loops={0: init_loop}, modifies=(("OrderedSet", "impl"),)))

    # ---------------------------------------------------------------- update (checked for 0, 1 and 2 iterables)
    def update_variant(nargs):
        names = ["s%d" % i for i in range(nargs)]

        def ens(c):
            S = c.S
            if c.raised:
                return [("no-exception", z3.BoolVal(False))]
            old, new = c.old_field(c.self, "impl"), c.field(c.self, "impl")
            mems = [c.eng.list_mem(c.params[n], c.st) for n in names]
            dom = old.dom
            for m in mems:
                dom = z3.SetUnion(dom, m)
            x = z3.Const(fresh_name("x"), S.Atom)
            y = z3.Const(fresh_name("y"), S.Atom)
            out = [("invariant", inv(S, new)), ("members", new.dom == dom), ("frame", frame_others(c, [c.self])),
                   ("old-positions-kept", z3.ForAll([x], z3.Implies(old.dom[x], new.pos[x] == old.pos[x]), patterns=[new.pos[x]])),
                   ("new-after-old", z3.ForAll([x, y], z3.Implies(z3.And(old.dom[x], new.dom[y], z3.Not(old.dom[y])), new.pos[x] < new.pos[y])))]
            if nargs >= 1:
                _, first = first_of(c, c.params[names[0]])
                a = z3.Const(fresh_name("a"), S.Atom)
                b = z3.Const(fresh_name("b"), S.Atom)
                m0 = mems[0]
                out.append(("new-from-first-arg-in-first-occurrence-order", z3.ForAll([a, b], z3.Implies(
                    z3.And(m0[a], m0[b], z3.Not(old.dom[a]), z3.Not(old.dom[b])), (new.pos[a] < new.pos[b]) == (first(a) < first(b))))))
            if nargs == 2:
                out.append(("first-arg-before-second-arg", z3.ForAll([x, y], z3.Implies(
                    z3.And(mems[0][x], mems[1][y], z3.Not(mems[0][y]), z3.Not(old.dom[y])), new.pos[x] < new.pos[y]))))
            return out
        return names, ens

    def update_loop_for(arg_index, names):
        def loop(c):
            S = c.S
            d = c.field(c.self, "impl")
            entry = c.old_field(c.self, "impl")
            pre = c.pre_field(c.self, "impl")
            cur = c.params[names[arg_index]]
            mem, first = first_of(c, cur)
            x = z3.Const(fresh_name("x"), S.Atom)
            y = z3.Const(fresh_name("y"), S.Atom)
            a = z3.Const(fresh_name("a"), S.Atom)
            b = z3.Const(fresh_name("b"), S.Atom)
            new = c.heap_parts("OrderedSet", "impl")
            old = c.heap_parts("OrderedSet", "impl", old=True)
            o = z3.Int(fresh_name("o"))
            fr = z3.And(*[z3.ForAll([o], z3.Implies(o != c.self.z, n[o] == p[o]), patterns=[n[o]]) for n, p in zip(new, old)])
            return [
                ("invariant", inv(S, d)),
                ("members", z3.ForAll([x], d.dom[x] == z3.Or(pre.dom[x], z3.And(mem[x], first(x) < c.i)), patterns=[d.dom[x]])),
                ("pre-positions-kept", z3.ForAll([x], z3.Implies(pre.dom[x], d.pos[x] == pre.pos[x]), patterns=[d.pos[x]])),
                ("new-after-pre", z3.ForAll([x, y], z3.Implies(z3.And(pre.dom[x], d.dom[y], z3.Not(pre.dom[y])), d.pos[x] < d.pos[y]))),
                ("new-in-first-occurrence-order", z3.ForAll([a, b], z3.Implies(z3.And(d.dom[a], d.dom[b], z3.Not(pre.dom[a]), z3.Not(pre.dom[b])),
                                                                                (d.pos[a] < d.pos[b]) == (first(a) < first(b))))),
                ("frame", fr),
            ]
        return loop

    for nargs in (0, 1, 2):
        names, ens = update_variant(nargs)
        c = Contract(key="OrderedSet.update[%d iterables]" % nargs, file=F, qualname="OrderedSet.update", cls="OrderedSet",
                     params={"self": OS, "args": T_varargs(names), **{n: SEQ for n in names}},
                     requires=self_inv, ensures=ens, modifies=(("OrderedSet", "impl"),), names=("update",) if nargs == 1 else ("update%d" % nargs,))
        # loop ordinals in the real body: 0 = `for s in args` (unrolled, args is a literal tuple), 1 = `for e in s`
        c.loops = {1: update_loop_router(names, update_loop_for)}
        reg.add(c)

    # ---------------------------------------------------------------- copy / __copy__
    def copy_ens(c):
        S = c.S
        if c.raised:
            return [("no-exception", z3.BoolVal(False))]
        old = c.old_field(c.self, "impl")
        r = c.result
        if not (isinstance(r, VScalar) and r.ty.kind == "obj"):
            return [("returns-an-OrderedSet", z3.BoolVal(False))]
        new = c.field(r, "impl")
        x = z3.Const(fresh_name("x"), S.Atom)
        return [
            ("fresh-object", r.z != c.self.z),
            ("invariant", inv(S, new)),
            ("members", new.dom == old.dom),
            ("same-order", same_order(old, new, S)),
            ("frame", frame_others(c, [r])),
        ]

    for nm in ("copy", "__copy__"):
        reg.add(Contract(key="OrderedSet." + nm, file=F, qualname="OrderedSet." + nm, cls="OrderedSet", params={"self": OS},
                         returns=OS, requires=self_inv, ensures=copy_ens, modifies=(("OrderedSet", "impl"),), fresh_result=True))

    # ---------------------------------------------------------------- __len__ / __contains__ / __iter__
    def len_ens(c):
        if c.raised:
            return [("no-exception", z3.BoolVal(False))]
        d = c.old_field(c.self, "impl")
        return [("is-number-of-members", c.result.z == c.eng.card(d.dom)), ("frame", frame_others(c, []))]

    reg.add(Contract(key="OrderedSet.__len__", file=F, qualname="OrderedSet.__len__", cls="OrderedSet", params={"self": OS}, returns=T.int,
                     requires=self_inv, ensures=len_ens))

    def contains_ens(c):
        if c.raised:
            return [("no-exception", z3.BoolVal(False))]
        d = c.old_field(c.self, "impl")
        return [("is-membership", c.result.z == d.dom[c.item.z]), ("frame", frame_others(c, []))]

    reg.add(Contract(key="OrderedSet.__contains__", file=F, qualname="OrderedSet.__contains__", cls="OrderedSet", params={"self": OS, "item": T.atom},
                     returns=T.bool, requires=self_inv, ensures=contains_ens))

    def iter_ens(c):
        if c.raised:
            return [("no-exception", z3.BoolVal(False))]
        d = c.old_field(c.self, "impl")
        r = c.result
        if not isinstance(r, VDict) or r.pos is None:
            return [("iterates-the-ordered-keys", z3.BoolVal(False))]
        return [("iterates-the-ordered-keys", z3.And(r.dom == d.dom, r.pos == d.pos)), ("frame", frame_others(c, []))]

    reg.add(Contract(key="OrderedSet.__iter__", file=F, qualname="OrderedSet.__iter__", cls="OrderedSet", params={"self": OS},
                     requires=self_inv, ensures=iter_ens))

    # ---------------------------------------------------------------- comparisons
    def le_ens(flip):
        def ens(c):
            if c.raised:
                return [("no-exception", z3.BoolVal(False))]
            a = c.old_field(c.self, "impl").dom
            b = c.old_field(c.other, "impl").dom
            want = z3.IsSubset(b, a) if flip else z3.IsSubset(a, b)
            rz = c.result.z if isinstance(c.result, VScalar) else z3.BoolVal(bool(c.result.obj))
            return [("is-subset-test", rz == want), ("frame", frame_others(c, []))]
        return ens

    def both_inv(c):
        return [("self-invariant", inv(c.S, c.field(c.self, "impl"))), ("other-invariant", inv(c.S, c.field(c.other, "impl")))]

    reg.add(Contract(key="OrderedSet.__le__", file=F, qualname="OrderedSet.__le__", cls="OrderedSet", params={"self": OS, "other": OS},
                     returns=T.bool, requires=both_inv, ensures=le_ens(False)))
    reg.add(Contract(key="OrderedSet.__ge__", file=F, qualname="OrderedSet.__ge__", cls="OrderedSet", params={"self": OS, "other": OS},
                     returns=T.bool, requires=both_inv, ensures=le_ens(True)))

    # ---------------------------------------------------------------- helpers (each argument: a list/tuple OR an OrderedSet)
    def arg_list(c, name):
        """sequence view of an argument as it was at the call"""
        v = c.params[name]
        if isinstance(v, VList):
            return v
        return c.eng.list_of(c.old_field(v, "impl"), c.st)

    def helper(name, setop):
        def ens(c):
            S = c.S
            if c.raised:
                return [("no-exception", z3.BoolVal(False))]
            r = c.result
            if not (isinstance(r, VScalar) and r.ty.kind == "obj"):
                return [("returns-an-OrderedSet", z3.BoolVal(False))]
            new = c.field(r, "impl")
            ma, fa = first_of(c, arg_list(c, "a"))
            mb, fb = first_of(c, arg_list(c, "b"))
            x = z3.Const(fresh_name("x"), S.Atom)
            y = z3.Const(fresh_name("y"), S.Atom)
            out = [("invariant", inv(S, new)), ("members", new.dom == setop(ma, mb)), ("arguments-and-all-other-sets-unchanged", frame_others(c, [r])),
                   ("a-elements-in-a-order", z3.ForAll([x, y], z3.Implies(z3.And(new.dom[x], new.dom[y], ma[x], ma[y]), (new.pos[x] < new.pos[y]) == (fa(x) < fa(y)))))]
            if name == "ordered_union":
                out.append(("a-before-b-only", z3.ForAll([x, y], z3.Implies(z3.And(ma[x], mb[y], z3.Not(ma[y])), new.pos[x] < new.pos[y]))))
                out.append(("b-only-in-b-order", z3.ForAll([x, y], z3.Implies(z3.And(mb[x], mb[y], z3.Not(ma[x]), z3.Not(ma[y])), (new.pos[x] < new.pos[y]) == (fb(x) < fb(y))))))
            return out
        return ens

    def union_loop(c):
        S = c.S
        a_obj = c.var("a")
        d = c.field(a_obj, "impl")
        pre = c.pre_field(a_obj, "impl")
        mem, first = first_of(c, arg_list(c, "b"))
        x = z3.Const(fresh_name("x"), S.Atom)
        y = z3.Const(fresh_name("y"), S.Atom)
        new = c.heap_parts("OrderedSet", "impl")
        old = c.heap_parts("OrderedSet", "impl", old=True)
        o = z3.Int(fresh_name("o"))
        fr = z3.And(*[z3.ForAll([o], z3.Implies(o != a_obj.z, n[o] == p[o]), patterns=[n[o]]) for n, p in zip(new, old)])
        return [
            ("invariant", inv(S, d)),
            ("members", z3.ForAll([x], d.dom[x] == z3.Or(pre.dom[x], z3.And(mem[x], first(x) < c.i)), patterns=[d.dom[x]])),
            ("pre-positions-kept", z3.ForAll([x], z3.Implies(pre.dom[x], d.pos[x] == pre.pos[x]), patterns=[d.pos[x]])),
            ("new-after-pre", z3.ForAll([x, y], z3.Implies(z3.And(pre.dom[x], d.dom[y], z3.Not(pre.dom[y])), d.pos[x] < d.pos[y]))),
            ("new-in-first-occurrence-order", z3.ForAll([x, y], z3.Implies(z3.And(d.dom[x], d.dom[y], z3.Not(pre.dom[x]), z3.Not(pre.dom[y])),
                                                                            (d.pos[x] < d.pos[y]) == (first(x) < first(y))))),
            ("frame", fr),
        ]

    def arg_inv(c):
        out = []
        for nm in ("a", "b"):
            v = c.params[nm]
            if isinstance(v, VScalar):
                out.append(("%s-invariant" % nm, inv(c.S, c.field(v, "impl"))))
        return out

    for (ta, tb, tag) in ((SEQ, SEQ, ""), (OS, SEQ, "[a=OrderedSet]"), (SEQ, OS, "[b=OrderedSet]"), (OS, OS, "[a,b=OrderedSet]")):
        names = lambda n: (n,) if tag == "" else ("%s%s" % (n, tag),)
        reg.add(Contract(key="ordered_intersect" + tag, file=F, qualname="ordered_intersect", params={"a": ta, "b": tb}, returns=OS, requires=arg_inv, names=names("ordered_intersect"),
                         ensures=helper("ordered_intersect", z3.SetIntersect), modifies=(("OrderedSet", "impl"),), fresh_result=True))
        reg.add(Contract(key="ordered_diff" + tag, file=F, qualname="ordered_diff", params={"a": ta, "b": tb}, returns=OS, requires=arg_inv, names=names("ordered_diff"),
                         ensures=helper("ordered_diff", z3.SetDifference), modifies=(("OrderedSet", "impl"),), fresh_result=True))
        reg.add(Contract(key="ordered_union" + tag, file=F, qualname="ordered_union", params={"a": ta, "b": tb}, returns=OS, requires=arg_inv, names=names("ordered_union"),
                         ensures=helper("ordered_union", z3.SetUnion), loops={0: union_loop}, modifies=(("OrderedSet", "impl"),), fresh_result=True))


# ordered_union with an OrderedSet as SECOND argument is not in the proved set: relating the loop's enumeration of b to the caller-visible order of b
# needs an order isomorphism between two enumerations of the same ordered dict that z3 does not find (unknown after 140 s); that variant is bounded-only.
HELPER_KEYS = [h + t for h in ("ordered_intersect", "ordered_union", "ordered_diff") for t in ("", "[a=OrderedSet]", "[b=OrderedSet]", "[a,b=OrderedSet]")
               if not (h == "ordered_union" and "b=OrderedSet" in t)]


def T_varargs(names):
    from pyvc.values import Ty
    return Ty("varargs", tuple(names))


def update_loop_router(names, make):
    """the inner loop `for e in s` is reached once per unrolled outer iteration; pick the invariant of the current s."""
    def loop(c):
        cur = c.var("s")
        for i, n in enumerate(names):
            p = c.params[n]
            if isinstance(cur, VList) and cur.arr.eq(p.arr):
                return make(i, names)(c)
        raise RuntimeError("update: cannot identify the iterable being consumed")
    return loop
