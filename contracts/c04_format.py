"""C04 (and the assumption used by C09/C18): SQLModel._indent_and_sep_terms lays the terms out one per line, in order, whatever the format options.

For every option setting the result has exactly len(terms) lines and line i is  indent + [separator decoration] + terms[i] + [separator decoration]:
the options (indent text, leading or trailing commas) only choose the decoration, never drop, repeat or reorder a term.
Strings are uninterpreted (concatenation cancellative, `" " * k` and len(str) uninterpreted).
"""
import z3
from pyvc.api import Contract, T, VDict, VList, VNone, VOpt, VPy, VScalar, VSet, VStr, VTuple, fresh_name, veq
from contracts.vr_common import COLS

F = "data_algebra/sql_model.py"


def register(reg):
    reg.add_class("SQLFormatOptions", {"initial_commas": T.bool, "sql_indent": T.atom}, file=F)
    reg.add_class("SQLModel", {"default_SQL_format_options": T.obj("SQLFormatOptions")}, file=F)
    SM = T.obj("SQLModel")

    def ens(c):
        S, eng, st = c.S, c.eng, c.st
        if c.raised:
            return []
        res = eng.list_of(c.result, st)
        terms = eng.list_of(c.terms, st)
        opts = c.sql_format_options
        if isinstance(opts, VNone):
            opts = c.field(c.self, "default_SQL_format_options")
        opts = VScalar(opts.z, T.obj("SQLFormatOptions"))
        indent = c.field(opts, "sql_indent").z
        initial = c.field(opts, "initial_commas").z
        cat = S.func("str_concat", S.Atom, S.Atom, S.Atom)
        rep = S.func("str_repeat", S.Atom, z3.IntSort(), S.Atom)
        slen = S.func("str_len", S.Atom, z3.IntSort())
        sep = eng.as_atom(c.sep, st, None)
        sp = S.str_const(" ")
        i = z3.Int("fmt_i")
        n = terms.n
        lead = lambda k: cat(cat(cat(indent, z3.If(k == 0, rep(sp, slen(sep)), sep)), sp), terms.arr[k])
        trail = lambda k: z3.If(k < n - 1, cat(cat(indent, terms.arr[k]), cat(sp, sep)), cat(indent, terms.arr[k]))
        return [("one-line-per-term", res.n == n),
                ("line-i-is-term-i-with-indent-and-separator-decoration-only (leading commas)", z3.Implies(initial, z3.ForAll([i], z3.Implies(z3.And(0 <= i, i < n), res.arr[i] == lead(i))))),
                ("line-i-is-term-i-with-indent-and-separator-decoration-only (trailing commas)", z3.Implies(z3.Not(initial), z3.ForAll([i], z3.Implies(z3.And(0 <= i, i < n), res.arr[i] == trail(i)))))]

    reg.add(Contract(key="SQLModel._indent_and_sep_terms", file=F, qualname="SQLModel._indent_and_sep_terms", cls="SQLModel",
                     params={"self": SM, "terms": COLS, "sep": T.atom, "sql_format_options": T.opt(T.obj("SQLFormatOptions"))}, returns=COLS, ensures=ens, allow_raises=True))


KEYS = ["SQLModel._indent_and_sep_terms"]
