"""Native replay of counter-models of the C06 contracts against the real /repo code."""


def replay_merge(case):
    """case = {"columns": [...], "ops1": {col: src}, "ops2": {col: src}}.
    Runs the REAL try_to_merge_ops; if it merges, evaluates merged vs. step-by-step on Pandas."""
    import pandas
    import data_algebra
    from data_algebra.data_ops import TableDescription
    from data_algebra.view_representations import ExtendNode
    import data_algebra.expr_parse as ep
    from data_algebra.data_ops_utils import try_to_merge_ops

    cols = list(case["columns"])
    for o in (case["ops1"], case["ops2"]):
        for k in o:
            if k not in cols:
                cols.append(k)
    td = TableDescription(table_name="d", column_names=cols)
    d = pandas.DataFrame({c: [float(3 + 7 * i + 11 * j) for j in range(3)] for i, c in enumerate(cols)})
    try:
        p1 = ep.parse_assignments_in_context(ops=case["ops1"], view=td)
        n1 = ExtendNode(source=td, parsed_ops=p1)
        p2 = ep.parse_assignments_in_context(ops=case["ops2"], view=n1)
    except Exception as ex:
        return {"fails": False, "observed": "inputs rejected by the builder (%r): precondition not met" % (ex,)}
    merged = try_to_merge_ops(p1, p2)
    if merged is None:
        return {"fails": False, "observed": "real try_to_merge_ops refused to merge"}
    step1 = n1.eval({"d": d})
    td2 = TableDescription(table_name="d2", column_names=list(step1.columns))
    step2 = ExtendNode(source=td2, parsed_ops=ep.parse_assignments_in_context(ops=case["ops2"], view=td2)).eval({"d2": step1})
    m = ExtendNode(source=td, parsed_ops=merged).eval({"d": d})
    same = set(m.columns) == set(step2.columns) and all((m[c].to_numpy() == step2[c].to_numpy()).all() for c in m.columns)
    return {"fails": not same, "module": "contracts.c06_native.replay_merge",
            "observed": "merged=%s sequential=%s" % (m.to_dict("list"), step2.to_dict("list"))}


def replay_merge_decision(case):
    """case = {"columns", "self": {partition_by, order_by, reverse, windowed, is_extend}, "new": {partition_by (list or 1), order_by, reverse, ops_imply_window}}.
    Builds the existing step and the new step through the REAL builders (which make the merge decision) and compares the chained pipeline with
    step-by-step evaluation on Pandas, on tables whose order columns are permutations (every declared order is total)."""
    import itertools
    import warnings
    import pandas
    from data_algebra.data_ops import TableDescription, describe_table

    warnings.filterwarnings("ignore")
    sp, nw = case["self"], case["new"]
    if not sp.get("is_extend"):
        return {"fails": False, "observed": "the existing step of the model is not an extend node: nothing to merge"}
    cols = [c for c in case["columns"] if c != "c_unnamed"]
    for L in (sp["partition_by"], sp["order_by"], sp["reverse"], nw["order_by"], nw["reverse"], nw["partition_by"] if isinstance(nw["partition_by"], list) else []):
        for c in L:
            if c not in cols:
                cols.append(c)
    td = TableDescription(table_name="d", column_names=["rid", "x"] + cols)

    def ops_for(windowed, ordered, name):
        if not windowed:
            return {name: "x + 1"}
        return {name: "x.cumsum()"} if ordered else {name: "x.sum()"}

    def pb_arg(pb, windowed, ordered):
        if pb == 1:
            return 1
        if len(pb) == 0 and windowed and not ordered:
            return 1
        return list(pb)

    s_ordered = len(sp["order_by"]) > 0
    n_windowed = nw["partition_by"] == 1 or (isinstance(nw["partition_by"], list) and len(nw["partition_by"]) > 0) or len(nw["order_by"]) > 0 or nw["ops_imply_window"]
    n_ordered = len(nw["order_by"]) > 0
    a1 = dict(partition_by=pb_arg(sp["partition_by"], sp["windowed"], s_ordered), order_by=list(sp["order_by"]) or None, reverse=list(sp["reverse"]) or None)
    a2 = dict(partition_by=pb_arg(nw["partition_by"], n_windowed, n_ordered), order_by=list(nw["order_by"]) or None, reverse=list(nw["reverse"]) or None)
    if not sp["windowed"]:
        a1 = {}
    try:
        n1 = td.extend(ops_for(sp["windowed"], s_ordered, "r1"), **a1)
    except Exception as ex:
        return {"fails": False, "observed": "the existing step of the model cannot be built (%s: %s): not a reachable state" % (type(ex).__name__, str(ex)[:80])}
    if bool(n1.windowed_situation) != bool(sp["windowed"]) or list(n1.order_by) != list(sp["order_by"]) or list(n1.partition_by) != [c for c in (sp["partition_by"] if isinstance(sp["partition_by"], list) else [])]:
        return {"fails": False, "observed": "the built step does not have the model's window specification: not a reachable state"}
    new_ops = ops_for(n_windowed, n_ordered, "r2")
    try:
        chain = n1.extend(new_ops, **(a2 if n_windowed else {}))
        chain_err = None
    except Exception as ex:
        chain, chain_err = None, "%s: %s" % (type(ex).__name__, str(ex)[:100])
    n = 6
    perms = list(itertools.permutations(range(n)))
    bad = None
    for t in range(4):
        data = {"rid": list(range(n)), "x": [float(2 ** i) for i in range(n)]}
        for ci, c in enumerate(cols):
            data[c] = [r % 2 for r in range(n)] if c in (sp["partition_by"] if isinstance(sp["partition_by"], list) else []) or c in (nw["partition_by"] if isinstance(nw["partition_by"], list) else []) \
                else list(perms[(97 * (ci + 1) + 131 * t) % len(perms)])
        d = pandas.DataFrame(data)
        try:
            r1 = n1.eval({"d": d})
            td2 = describe_table(r1, table_name="d2")
            step = td2.extend(new_ops, **(a2 if n_windowed else {}))
            r2 = step.eval({"d2": r1})
            step_err = None
        except Exception as ex:
            r2, step_err = None, "%s: %s" % (type(ex).__name__, str(ex)[:100])
        if (chain_err is None) != (step_err is None):
            bad = "chained pipeline: %s; step by step: %s" % (chain_err or "accepted", step_err or "accepted")
            break
        if chain_err is not None:
            continue
        rc = chain.eval({"d": d})
        a = rc.sort_values("rid").reset_index(drop=True)
        b = r2.sort_values("rid").reset_index(drop=True)
        if set(a.columns) != set(b.columns) or any(a[c].tolist() != b[c].tolist() for c in a.columns):
            bad = "on d=%s the chained pipeline gives r1=%s r2=%s, step by step r1=%s r2=%s" % (d.drop(columns=["rid"]).to_dict("list"), a["r1"].tolist(), a["r2"].tolist(), b["r1"].tolist(), b["r2"].tolist())
            break
    pipeline = "d.extend(%r, %r).extend(%r, %r)" % (ops_for(sp["windowed"], s_ordered, "r1"), a1, new_ops, a2 if n_windowed else {})
    return {"fails": bad is not None, "module": "contracts.c06_native.replay_merge_decision", "observed": (pipeline + ": " + bad) if bad else "chained and step-by-step results agree for " + pipeline}
