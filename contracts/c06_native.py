"""Native replay of counter-models of the C06 contracts against the real /repo code."""


def replay_merge(case):
    """case = {"columns": [...], "ops1": {col: src}, "ops2": {col: src}}.
    Runs the REAL try_to_merge_ops; if it merges, evaluates merged vs. step-by-step on Pandas."""
    import pandas
    import data_algebra
    from data_algebra.data_ops import TableDescription
    from data_algebra.view_representations import ExtendNode
    import data_algebra.expr_parse as ep
    from data_algebra.data_ops_utils import try_to_merge_ops

    cols = list(case["columns"])
    for o in (case["ops1"], case["ops2"]):
        for k in o:
            if k not in cols:
                cols.append(k)
    td = TableDescription(table_name="d", column_names=cols)
    d = pandas.DataFrame({c: [float(3 + 7 * i + 11 * j) for j in range(3)] for i, c in enumerate(cols)})
    try:
        p1 = ep.parse_assignments_in_context(ops=case["ops1"], view=td)
        n1 = ExtendNode(source=td, parsed_ops=p1)
        p2 = ep.parse_assignments_in_context(ops=case["ops2"], view=n1)
    except Exception as ex:
        return {"fails": False, "observed": "inputs rejected by the builder (%r): precondition not met" % (ex,)}
    merged = try_to_merge_ops(p1, p2)
    if merged is None:
        return {"fails": False, "observed": "real try_to_merge_ops refused to merge"}
    step1 = n1.eval({"d": d})
    td2 = TableDescription(table_name="d2", column_names=list(step1.columns))
    step2 = ExtendNode(source=td2, parsed_ops=ep.parse_assignments_in_context(ops=case["ops2"], view=td2)).eval({"d2": step1})
    m = ExtendNode(source=td, parsed_ops=merged).eval({"d": d})
    same = set(m.columns) == set(step2.columns) and all((m[c].to_numpy() == step2[c].to_numpy()).all() for c in m.columns)
    return {"fails": not same, "module": "contracts.c06_native.replay_merge",
            "observed": "merged=%s sequential=%s" % (m.to_dict("list"), step2.to_dict("list"))}
