"""C12 / C13: the grouping discipline of Expression.to_python (data_algebra/expr_rep.py), the function that prints every operator, method and function-call
expression of a pipeline.

Printed text re-parses to the same tree only if every operand of an infix operator is *delimited*: it is an atom, a call, or wrapped in parentheses.
The code implements this by a protocol between a node and its operands: the parent passes `want_inline_parens=True` to the operands of an infix
operator, and an expression that is asked for parentheses must answer with text of the form "(" + ... + ")" and say so (`is_in_parens=True`); the flag is
in turn what lets a unary operator or a method receiver omit its own parentheses.  The contract states that protocol for ALL expressions (any
operator name, any number of arguments, any operand texts):

  * infix, >= 2 operands: the text is the operands' texts -- each OBTAINED WITH want_inline_parens=True -- joined by " op ", and it is wrapped in
    parentheses (and flagged) exactly when the caller asked for it;
  * unary infix (e.g. unary minus): op + operand, the operand wrapped in parentheses unless it says it already is; and the whole wrapped (and
    flagged) exactly when the caller asked for it (this clause was violated by the pinned tree: `(-x) ** 2` printed as `-(x) ** 2`);
  * method form: the receiver is wrapped in parentheses unless it is flagged as wrapped or is a column reference, followed by .op( and the other
    arguments' texts in order, comma separated (through the slice `subs_strs[1:]`);
  * function form: op(arguments in order, comma separated); zero arguments: op();
  * soundness of the flag: is_in_parens=True is only ever returned together with text that starts with "(" and ends with ")" around the whole result.

What is verified is the real body, re-read from /repo on every run.  Abstractions (all recorded as assumptions in the evidence):
  - the recursive calls `ai.to_python(want_inline_parens=b)` are calls through the contract "returns SOME PythonText that is a function of (ai, b)";
    nothing about the operand's text is assumed (so the obligations hold whatever the operands print);
  - PythonText is an immutable pair (s, is_in_parens): `PythonText(s, is_in_parens=b)` builds it, `str(p)` reads s (PythonText.__str__ returns self.s and
    nothing in data_algebra assigns these two fields outside __init__);
  - strings are uninterpreted: + is a cancellative concatenation, sep.join(list) an uninterpreted function of separator and list, so the obligations say
    WHICH pieces are concatenated in WHICH order.  That the delimited text is then read back to the same tree by the lark grammar is NOT proved
    (bounded run of C12 / C13).
Value.to_python / ColumnReference.to_python / ListTerm / DictTerm printing are not under contract (repr of Python values).
"""
import z3
from pyvc.api import Contract, T, VDict, VList, VNone, VOpt, VPy, VScalar, VSet, VStr, VTuple, fresh_name, veq

F = "data_algebra/expr_rep.py"
import os
_METHOD_CONTENT = os.environ.get("C12_METHOD_CONTENT", "1") == "1"  # piece i of the method's argument list is the text of argument i+1
EXPR = T.opaque("Expr")
PT = T.opaque("PyText")


def _fns(S):
    pt = S.func("to_python_of", S.sort("Expr"), z3.BoolSort(), S.sort("PyText"))
    text = S.func("str_of_PyText", S.sort("PyText"), S.Atom)
    par = S.func("pytext_is_in_parens", S.sort("PyText"), z3.BoolSort())
    mk = S.func("PythonText_new", S.Atom, z3.BoolSort(), S.sort("PyText"))
    iscol = S.func("is_ColumnReference", S.sort("Expr"), z3.BoolSort())
    cat = S.func("str_concat", S.Atom, S.Atom, S.Atom)
    join = S.func("str_join", S.Atom, z3.ArraySort(z3.IntSort(), S.Atom), z3.IntSort(), S.Atom)
    return pt, text, par, mk, iscol, cat, join


def _zbool(eng, v, st, node):
    if isinstance(v, VPy):
        return z3.BoolVal(bool(v.obj))
    return eng.coerce(v, T.bool, st, node).z


def register(reg):
    reg.add_class("Expression", {"op": T.atom, "args": T.list(EXPR), "inline": T.bool, "method": T.bool}, file=F)
    EX = T.obj("Expression")

    def to_python_apply(eng, st, argmap, node):
        pt, text, par, mk, iscol, cat, join = _fns(eng.S)
        flag = _zbool(eng, argmap.get("want_inline_parens", VPy(False)), st, node)
        r = pt(argmap["self"].z, flag)
        st.assume(text(r) != eng.S.NONE)
        eng.registry.note("assumed: the recursive call ai.to_python(want_inline_parens=b) returns a PythonText that is a function of (ai, b); nothing is assumed about its text or flag")
        return [(st, VScalar(r, PT))]

    reg.opaque_methods[("Expr", "to_python")] = Contract(key="Expr.to_python", params={"want_inline_parens": T.bool}, assumed=True, apply=to_python_apply)
    reg.opaque_attrs[("PyText", "is_in_parens")] = lambda eng, st, o: VScalar(_fns(eng.S)[2](o.z), T.bool)
    reg.globals[("isinstance", "Expr", "ColumnReference")] = lambda eng, st, v: _fns(eng.S)[4](v.z)
    # an operand may itself be an Expression: without this hook the engine decides isinstance(opaque operand, <declared class>) as False and would treat
    # code guarded by such a test as dead (found with seeded change s5-C12); with it the branch is feasible, and reads of the operand's fields leave
    # the modelled subset (target reported undecided, never "discharged")
    reg.globals[("isinstance", "Expr", "Expression")] = lambda eng, st, v: eng.S.func("is_Expression", eng.S.sort("Expr"), z3.BoolSort())(v.z)

    def new_pytext(eng, st, argmap, node):
        pt, text, par, mk, iscol, cat, join = _fns(eng.S)
        s = eng.as_atom(argmap["s"], st, node)
        b = _zbool(eng, argmap.get("is_in_parens", VPy(False)), st, node)
        r = mk(s, b)
        st.assume(text(r) == s)
        st.assume(par(r) == b)
        eng.registry.note("assumed: PythonText(s, is_in_parens=b) is the immutable pair (s, b); str(p) is p.s (PythonText.__init__ / __str__, 4 lines, read)")
        return [(st, VScalar(r, PT))]

    reg.add(Contract(key="PythonText", params={"s": T.atom, "is_in_parens": T.bool}, assumed=True, apply=new_pytext, names=("PythonText",)))

    def ens(c):
        S, st = c.S, c.st
        if c.raised:
            return [("to_python-never-raises", z3.BoolVal(False))]
        pt, text, par, mk, iscol, cat, join = _fns(S)
        k = S.str_const
        args = c.field(c.self, "args")
        op = c.field(c.self, "op").z
        inline = c.field(c.self, "inline").z
        method = c.field(c.self, "method").z
        n = args.n
        W = _zbool(c.eng, c.want_inline_parens, st, None)
        res = c.result.z
        rt, rp = text(res), par(res)
        F_, T_ = z3.BoolVal(False), z3.BoolVal(True)
        a0 = args.arr[0]
        s0 = text(pt(a0, F_))
        p0 = par(pt(a0, F_))
        wrap = lambda x: cat(cat(k("("), x), k(")"))

        def joined(sep_z, want_flag, lo, content=True):
            """some recorded join call with this separator over the list [str(ai.to_python(want_inline_parens=want_flag)) for ai in args[lo:]]"""
            alts = []
            calls = [(z, l) for (z, l) in st.ghost.get("join_calls_sym", [])] + [(k(s_), l) for (s_, l) in st.ghost.get("join_calls", [])]
            i = z3.Int(fresh_name("pj"))
            for (z, lst) in calls:
                cont = z3.ForAll([i], z3.Implies(z3.And(0 <= i, i < n - lo), lst.arr[i] == text(pt(args.arr[i + lo], want_flag)))) if content else z3.BoolVal(True)
                alts.append((z3.And(z == sep_z, lst.n == n - lo, cont), join(z, lst.arr, lst.n)))
            return alts

        def text_is_join(sep_z, want_flag, lo, build, content=True):
            alts = joined(sep_z, want_flag, lo, content)
            if not alts:
                return z3.BoolVal(False)
            return z3.Or(*[z3.And(cond, rt == build(j)) for (cond, j) in alts])

        unary = z3.If(p0, cat(op, s0), cat(cat(cat(op, k("(")), s0), k(")")))  # in the association the code uses: ((op + "(") + s) + ")"
        # receiver + "." in the association the code uses: the wrapped form is  "(" + s + ")."  (one literal ")."), strings being uninterpreted
        recv_dot = z3.If(z3.Or(p0, iscol(a0)), cat(s0, k(".")), cat(cat(k("("), s0), k(").")))
        sep_inline = cat(cat(k(" "), op), k(" "))
        out = [
            ("no-arguments: op()", z3.Implies(n <= 0, z3.And(rt == cat(op, k("()")), z3.Not(rp)))),
            ("unary-infix, no parentheses requested: op + operand, the operand wrapped in parentheses unless it is flagged as wrapped",
             z3.Implies(z3.And(n == 1, inline, z3.Not(W)), z3.And(rt == unary, z3.Not(rp)))),
            ("unary-infix, parentheses requested: still op + operand with the operand wrapped unless flagged (with or without outer parentheses)",
             z3.Implies(z3.And(n == 1, inline, W), z3.Or(rt == unary, rt == wrap(unary)))),
            ("unary-infix, parentheses requested => the whole text is wrapped and flagged (a unary minus used as base of ** or as receiver must stay grouped)",
             z3.Implies(z3.And(n == 1, inline, W), z3.And(rt == wrap(unary), rp))),
            ("infix: every operand is printed with want_inline_parens=True, in order, joined by ' op '",
             z3.Implies(z3.And(n >= 2, inline), z3.If(W, text_is_join(sep_inline, T_, 0, wrap), text_is_join(sep_inline, T_, 0, lambda j: j)))),
            ("infix: asked for parentheses <=> wrapped and flagged", z3.Implies(z3.And(n >= 2, inline), rp == W)),
            ("method-form, no further arguments: receiver wrapped unless flagged as wrapped or a column reference",
             z3.Implies(z3.And(n == 1, z3.Not(inline), method), z3.And(rt == cat(cat(recv_dot, op), k("()")), z3.Not(rp)))),
            ("method-form: receiver wrapped unless flagged as wrapped or a column reference, then .op( n-1 comma separated pieces )",
             z3.Implies(z3.And(n >= 2, z3.Not(inline), method),
                        z3.And(text_is_join(k(", "), F_, 1, lambda j: cat(cat(cat(cat(recv_dot, op), k("(")), j), k(")")), content=_METHOD_CONTENT), z3.Not(rp)))),
            ("function-form: op(arguments in order, comma separated)",
             z3.Implies(z3.And(n >= 1, z3.Not(inline), z3.Not(method)),
                        z3.And(text_is_join(k(", "), F_, 0, lambda j: cat(cat(cat(op, k("(")), j), k(")"))), z3.Not(rp)))),
            ("the-flag-is-sound: is_in_parens is only returned with text of the form '(' + ... + ')'",
             z3.Implies(rp, z3.Exists([z3.Const("pp_inner", S.Atom)], rt == wrap(z3.Const("pp_inner", S.Atom))))),
        ]
        return out

    reg.add(Contract(key="Expression.to_python", file=F, qualname="Expression.to_python", cls="Expression", params={"self": EX, "want_inline_parens": T.bool}, returns=PT,
                     ensures=ens, entry_assume=lambda c: [c.field(c.self, "op").z != c.S.NONE]))


KEYS = ["Expression.to_python"]


UNARY_FINDING = "Expression.to_python.unary-infix, parentheses requested => the whole text is wrapped and flagged (a unary minus used as base of ** or as receiver must stay grouped)"


def witness_unary_not_grouped():
    """native witness of the recorded finding: the operand protocol is not honoured by a unary infix expression"""
    import data_algebra.expr_rep as er
    e = er.Expression(op="-", args=[er.ColumnReference("x")], inline=True)
    got = e.to_python(want_inline_parens=True)
    pw = (-er.ColumnReference("x")) ** 2
    printed = str(pw.to_python())
    fails = (not got.is_in_parens) or not (str(got).startswith("(") and str(got).endswith(")"))
    return {"fails": bool(fails), "case": {"expr": "Expression('-', [x], inline=True).to_python(want_inline_parens=True)"},
            "observed": "text %r is_in_parens=%r; (-x) ** 2 prints as %r" % (str(got), got.is_in_parens, printed)}
