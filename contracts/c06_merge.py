"""Sidecar contract: data_algebra/data_ops_utils.py::try_to_merge_ops  (property C06, obligation group 1)."""
import z3
from pyvc.api import Contract, T, VDict, VNone, VSet, VScalar, forall, fresh_name
from spec.sem_z3 import TableSem

EXPR = T.opaque("Expr")
OPS = T.dict(T.atom, EXPR)


def wf_ops(S, sem, d):
    """an assignment set never reads a column it produces, except to update itself
    (the only producer of ops maps, expr_parse.parse_assignments_in_context, enforces this)."""
    k = z3.Const(fresh_name("k"), S.Atom)
    c = z3.Const(fresh_name("c"), S.Atom)
    return z3.ForAll([k, c], z3.Implies(z3.And(d.dom[k], sem.cols(d.val[k])[c], d.dom[c]), c == k))


def get_columns_used_apply(eng, st, argmap, node):
    """assumed contract of expr_rep.get_columns_used: union of cols(e) over the values (read from its body:
    a loop calling node.get_column_names on a fresh set)."""
    S = eng.S
    d = argmap["parsed_exprs"]
    sem = TableSem(S, None)
    res = z3.Const(fresh_name("used"), z3.ArraySort(S.Atom, z3.BoolSort()))
    wit = z3.Function(fresh_name("used_wit"), S.Atom, S.Atom)
    k = z3.Const(fresh_name("k"), S.Atom)
    c = z3.Const(fresh_name("c"), S.Atom)
    st.assume(z3.ForAll([k, c], z3.Implies(z3.And(d.dom[k], sem.cols(d.val[k])[c]), res[c]), patterns=[z3.MultiPattern(d.dom[k], sem.cols(d.val[k])[c])]))
    st.assume(z3.ForAll([c], z3.Implies(res[c], z3.And(d.dom[wit(c)], sem.cols(d.val[wit(c)])[c])), patterns=[res[c]]))
    st.assume(z3.Not(res[S.NONE]))
    eng.registry.note("assumed contract: expr_rep.get_columns_used(ops) = union of cols(e) over ops.values()")
    return [(st, VSet(res, T.set(T.atom)))]


def register(reg):
    reg.add(Contract(key="data_algebra.expr_rep.get_columns_used", params={"parsed_exprs": OPS}, assumed=True,
                     apply=get_columns_used_apply, names=("get_columns_used",)))

    def requires(c):
        S = c.S
        sem = TableSem(S, c.W.arr)
        return [("wf_ops1", wf_ops(S, sem, c.ops1)), ("wf_ops2", wf_ops(S, sem, c.ops2)),
                ("window-cols-not-assigned", forall(S.Atom, lambda x: z3.Not(z3.And(c.W.arr[x], z3.Or(c.ops1.dom[x], c.ops2.dom[x])))))]

    def ensures(c):
        S = c.S
        if c.raised:
            return [("no-exception", z3.BoolVal(False))]
        if isinstance(c.result, VNone):
            return [("refusal-is-safe", z3.BoolVal(True))]
        r = c.result
        if not isinstance(r, VDict):
            return [("result-is-dict-or-None", z3.BoolVal(False))]
        sem = TableSem(S, c.W.arr)
        facts = list(sem.axioms())
        tb = z3.Const(fresh_name("T"), sem.Table)
        k = z3.Const(fresh_name("kk"), S.Atom)
        step1 = sem.ext(c.ops1.dom, c.ops1.val, tb, facts)
        step2_k = sem.ext_at(c.ops2.dom, c.ops2.val, step1, k)
        merged_k = sem.ext_at(r.dom, r.val, tb, k)
        facts.append(sem.frame_instance(c.ops2.val[k], step1, tb))  # instance of the frame axiom, as a hint
        facts.append(step1[k] == sem.ext_at(c.ops1.dom, c.ops1.val, tb, k))
        d = sem.diff(c.ops2.val[k], step1, tb)
        facts.append(step1[d] == sem.ext_at(c.ops1.dom, c.ops1.val, tb, d))
        hyp = z3.And(*facts)
        return [
            ("merged-extend-equals-sequential-extends", z3.Implies(hyp, merged_k == step2_k)),
            ("keys-are-union", forall(S.Atom, lambda x: r.dom[x] == z3.Or(c.ops1.dom[x], c.ops2.dom[x]))),
        ]

    reg.add(Contract(
        key="try_to_merge_ops", file="data_algebra/data_ops_utils.py", qualname="try_to_merge_ops",
        params={"ops1": OPS, "ops2": OPS}, ghost_params={"W": T.set(T.atom)},
        returns=T.opt(OPS), requires=requires, ensures=ensures,
        note="ghost W = window (partition/order) columns of both steps; ev reads cols(e) ∪ W",
        concretize=concretize_merge,
    ))


# ---------------------------------------------------------------------------- counter-model -> real inputs


def model_atoms(model, S, extra_terms=()):
    """name the Atom-sort elements of a model's universe (every element, not only the scope constants:
    array extensionality may introduce witnesses outside them)."""
    names = {}
    uni = list(S.universe) if S.finite else (model.get_universe(S.Atom) or [])
    none_v = model.eval(S.NONE, model_completion=True)
    for v in uni:
        if v.eq(none_v):
            continue
        names.setdefault(str(v), ("c%d" % len(names), v))
    return names


def concretize_ops(model, S, sem, d, names):
    out = {}
    expr_ids = {}
    for sval, (nm, a) in names.items():
        if z3.is_true(model.eval(d.dom[a], model_completion=True)):
            e = model.eval(d.val[a], model_completion=True)
            eid = expr_ids.setdefault(str(e), len(expr_ids))
            reads = [n2 for (sv2, (n2, b)) in names.items() if z3.is_true(model.eval(sem.cols(d.val[a])[b], model_completion=True))]
            out[nm] = {"reads": sorted(reads), "expr_id": str(e)}
    return out


def concretize_merge(model, params, S):
    from spec.sem_z3 import TableSem
    sem = TableSem(S, params["W"].arr)
    names = model_atoms(model, S)
    ops1 = concretize_ops(model, S, sem, params["ops1"], names)
    ops2 = concretize_ops(model, S, sem, params["ops2"], names)
    ids = sorted({v["expr_id"] for v in list(ops1.values()) + list(ops2.values())})
    def src(v):
        const = 2 + ids.index(v["expr_id"])
        return " + ".join(v["reads"] + [str(const)])
    return {"columns": sorted(nm for (nm, a) in names.values()),
            "ops1": {k: src(v) for k, v in sorted(ops1.items())},
            "ops2": {k: src(v) for k, v in sorted(ops2.items())}}
