"""Sidecar contracts: node constructors of view_representations.py (property C26: the builder rejects ill-formed steps).

For each constructor:  (accepted) => every documented rule holds for the arguments and the node stores them;
                       (rejected with the rule's exception kind) => some documented rule is violated.
Other exception kinds (inconsistent table definitions, type asserts) are outside the rules and left unconstrained.
"""
import z3
from pyvc.api import Contract, T, VDict, VList, VNone, VOpt, VPy, VScalar, VSet, VStr, VTuple, fresh_name, veq
from contracts.vr_common import F, COLS, NODE, register_classes, colset, colset_old

Raised = __import__("pyvc.engine", fromlist=["Raised"]).Raised


def set_eq(S, a, b):
    """A == B stated pointwise: the negated goal then has a skolem element with ground membership terms, which e-matching instantiates
    reliably (the array (dis)equality form relies on z3's lazily generated extensionality witness and was unstable from run to run)"""
    x = z3.Const(fresh_name("se_x"), S.Atom)
    return z3.ForAll([x], a[x] == b[x])


def register(reg):
    register_classes(reg)

    # ---- base constructor: stores column_names / sources / node_name, rejects empty or duplicate column lists (assumed; it is straight-line asserts)
    def base_init_apply(eng, st, argmap, node):
        slf = argmap["this"]
        cn = eng.list_of(argmap["column_names"], st, node)
        eng.write_field(st, slf, "column_names", VList(cn.n, cn.arr, COLS, True, False, cn.mem), node)
        srcs = argmap.get("sources")
        if srcs is None or isinstance(srcs, VNone):
            srcs = VTuple([], is_list=True)
        sl = eng.coerce(srcs, T.list(NODE), st, node) if not isinstance(srcs, VList) else srcs
        eng.write_field(st, slf, "sources", sl, node)
        eng.write_field(st, slf, "node_name", argmap["node_name"], node)
        eng.registry.note("assumed: ViewRepresentation.__init__ stores column_names / sources / node_name (and asserts the list is non-empty and duplicate free)")
        r = st.fork()
        return [(st, VNone()), (r, Raised("AssertionError"))]

    reg.add(Contract(key="ViewRepresentation.__init__", params={"this": NODE, "column_names": COLS}, assumed=True, apply=base_init_apply))

    def get_tables_apply(eng, st, argmap, node):
        S = eng.S
        dom = z3.Const(fresh_name("tables_dom"), z3.ArraySort(S.Atom, z3.BoolSort()))
        val = z3.Const(fresh_name("tables_val"), z3.ArraySort(S.Atom, z3.IntSort()))
        st.assume(z3.Not(dom[S.NONE]))
        return [(st, VDict(dom, val, T.dict(T.atom, T.obj("TableDescription"))))]

    reg.add(Contract(key="ViewRepresentation.get_tables", cls="ViewRepresentation", params={"self": NODE}, assumed=True, apply=get_tables_apply))
    reg.add(Contract(key="_assert_tables_defs_consistent", params={}, assumed=True, apply=lambda eng, st, argmap, node: [(st, VNone()), (st.fork(), Raised("ValueError"))]))
    reg.add(Contract(key="TableDescription.same_table_description_", cls="TableDescription", params={"self": T.obj("TableDescription")}, assumed=True,
                     apply=lambda eng, st, argmap, node: [(st, VScalar(z3.Const(fresh_name("same_td"), z3.BoolSort()), T.bool))]))

    def std_apply(eng, st, argmap, node):
        S = eng.S
        jt = eng.as_atom(argmap["join_str"], st, node)
        ok = S.func("join_type_is_supported", S.Atom, z3.BoolSort())
        std = S.func("standard_join_type", S.Atom, S.Atom)
        t, f = eng.branch(st, ok(jt), node)
        out = []
        if t is not None:
            t.assume(std(jt) != S.NONE)
            out.append((t, VScalar(std(jt), T.atom)))
        if f is not None:
            out.append((f, Raised("KeyError")))
        return out

    reg.add(Contract(key="data_algebra.expr_rep.standardize_join_type", params={"join_str": T.atom}, assumed=True, apply=std_apply))

    # ------------------------------------------------------------------ NaturalJoinNode.__init__
    def nj_rules(c):
        S = c.S
        ca, cb = colset_old(c, c.a), colset_old(c, c.b)
        ka, kb = c.eng.list_mem(c.on_a, c.st), c.eng.list_mem(c.on_b, c.st)
        keys_left_ok = z3.IsSubset(ka, ca)
        keys_right_ok = z3.IsSubset(kb, cb)
        common_nonkey = z3.SetDifference(z3.SetIntersect(ca, cb), z3.SetIntersect(ka, kb))
        common_ok = z3.Implies(c.check_all_common_keys_in_equi_spec.z, common_nonkey == z3.K(S.Atom, z3.BoolVal(False)))
        jt_ok = S.func("join_type_is_supported", S.Atom, z3.BoolSort())(c.jointype.z)
        return keys_left_ok, keys_right_ok, common_ok, jt_ok

    def nj_ens(c):
        S = c.S
        kl, kr, co, jt = nj_rules(c)
        if c.raised == "KeyError":
            return [("rejected-with-KeyError-only-for-a-documented-reason (missing join keys, unchecked common columns, unknown join type)", z3.Not(z3.And(kl, kr, co, jt)))]
        if c.raised:
            return []
        ca, cb = colset_old(c, c.a), colset_old(c, c.b)
        srcs = c.field(c.self, "sources")
        return [("accepted-only-when-join-keys-exist-on-both-sides", z3.And(kl, kr)),
                ("accepted-only-when-requested-common-column-check-passes", co),
                ("keys-stored-as-given", z3.And(veq(c.field(c.self, "on_a"), c.on_a), veq(c.field(c.self, "on_b"), c.on_b))),
                ("produced-columns-are-the-union", set_eq(c.S, colset(c, c.self), z3.SetUnion(ca, cb))),
                ("sources-are-left-then-right", z3.And(srcs.n == 2, srcs.arr[0] == c.a.z, srcs.arr[1] == c.b.z))]

    def nj_loop_tables(c):
        return []

    def nj_loop_cols(c):
        """for ci in b.column_names: append unseen -- columns_seen and column_names both hold a's columns plus the visited prefix of b's"""
        S = c.S
        seen = c.var("columns_seen").arr
        names = c.eng.list_mem(c.var("column_names"), c.st)
        ca = colset(c, c.params["a"])
        bl = c.field(c.params["b"], "column_names")
        x = z3.Const("njl_x", S.Atom)
        j = z3.Int("njl_j")
        prefix = lambda xx: z3.Exists([j], z3.And(0 <= j, j < c.i, bl.arr[j] == xx))
        return [("seen-is-a-plus-visited-b", z3.ForAll([x], seen[x] == z3.Or(ca[x], prefix(x)))),
                ("names-hold-exactly-the-seen-columns", names == seen)]

    reg.add(Contract(key="NaturalJoinNode.__init__", file=F, qualname="NaturalJoinNode.__init__", cls="NaturalJoinNode", is_init=True,
                     params={"self": T.obj("NaturalJoinNode"), "a": NODE, "b": NODE, "on_a": COLS, "on_b": COLS, "jointype": T.atom, "check_all_common_keys_in_equi_spec": T.bool},
                     requires=lambda c: [("a-allocated", c.eng.allocated(c.st, c.a)), ("b-allocated", c.eng.allocated(c.st, c.b))],
                     ensures=nj_ens, loops={0: nj_loop_tables, 1: nj_loop_cols},
                     modifies=(("ViewRepresentation", "column_names"), ("ViewRepresentation", "sources"), ("ViewRepresentation", "node_name"),
                               ("NaturalJoinNode", "on_a"), ("NaturalJoinNode", "on_b"), ("NaturalJoinNode", "jointype"))))

    # ------------------------------------------------------------------ SelectColumnsNode / DropColumnsNode / OrderRowsNode / ConcatRowsNode
    def sel_ens(c):
        want = c.eng.list_mem(c.eng.list_of(c.columns, c.st), c.st)
        cs = colset_old(c, c.source)  # the constructor does not touch its source: its columns are read in the entry state
        if c.raised == "KeyError":
            return [("KeyError-only-for-an-unknown-column", z3.Not(z3.IsSubset(want, cs)))]
        if c.raised:
            return []
        return [("accepted-only-known-columns", z3.IsSubset(want, cs)), ("produced-columns-are-the-selection", set_eq(c.S, colset(c, c.self), want)),
                ("selection-stored", veq(c.field(c.self, "column_selection"), c.eng.list_of(c.columns, c.st)))]

    reg.add(Contract(key="SelectColumnsNode.__init__", file=F, qualname="SelectColumnsNode.__init__", cls="SelectColumnsNode", is_init=True,
                     params={"self": T.obj("SelectColumnsNode"), "source": NODE, "columns": COLS}, requires=lambda c: [("source-allocated", c.eng.allocated(c.st, c.source))], ensures=sel_ens,
                     modifies=(("ViewRepresentation", "column_names"), ("ViewRepresentation", "sources"), ("ViewRepresentation", "node_name"), ("SelectColumnsNode", "column_selection"))))

    def drop_ens(c):
        dels = c.eng.list_mem(c.eng.list_of(c.column_deletions, c.st), c.st)
        cs = colset_old(c, c.source)  # the constructor does not touch its source: its columns are read in the entry state
        if c.raised == "KeyError":
            return [("KeyError-only-for-an-unknown-column", z3.Not(z3.IsSubset(dels, cs)))]
        if c.raised:
            return []
        return [("accepted-only-known-columns", z3.IsSubset(dels, cs)), ("produced-columns-are-source-minus-deletions", set_eq(c.S, colset(c, c.self), z3.SetDifference(cs, dels)))]

    reg.add(Contract(key="DropColumnsNode.__init__", file=F, qualname="DropColumnsNode.__init__", cls="DropColumnsNode", is_init=True,
                     params={"self": T.obj("DropColumnsNode"), "source": NODE, "column_deletions": COLS}, requires=lambda c: [("source-allocated", c.eng.allocated(c.st, c.source))], ensures=drop_ens,
                     modifies=(("ViewRepresentation", "column_names"), ("ViewRepresentation", "sources"), ("ViewRepresentation", "node_name"), ("DropColumnsNode", "column_deletions"))))

    def order_ens(c):
        oc = c.eng.list_mem(c.eng.list_of(c.columns, c.st), c.st)
        cs = colset_old(c, c.source)  # the constructor does not touch its source: its columns are read in the entry state
        rv = z3.K(c.S.Atom, z3.BoolVal(False)) if isinstance(c.reverse, VNone) else c.eng.list_mem(c.eng.list_of(c.reverse, c.st), c.st)
        ok = z3.And(z3.IsSubset(oc, cs), z3.IsSubset(rv, oc))
        if c.raised == "ValueError":
            return [("ValueError-only-for-unknown-order-columns-or-reverse-outside-order", z3.Not(ok))]
        if c.raised:
            return []
        return [("accepted-only-known-order-columns-and-reverse-within-them", ok), ("same-columns-as-source", set_eq(c.S, colset(c, c.self), cs)),
                ("limit-stored", veq(c.field(c.self, "limit"), c.limit if not isinstance(c.limit, VNone) else VOpt(z3.BoolVal(True), c.field(c.self, "limit").val, T.opt(T.int))))]

    reg.add(Contract(key="OrderRowsNode.__init__", file=F, qualname="OrderRowsNode.__init__", cls="OrderRowsNode", is_init=True,
                     params={"self": T.obj("OrderRowsNode"), "source": NODE, "columns": COLS, "reverse": T.opt(COLS), "limit": T.opt(T.int)},
                     requires=lambda c: [("source-allocated", c.eng.allocated(c.st, c.source))], ensures=order_ens,
                     modifies=(("ViewRepresentation", "column_names"), ("ViewRepresentation", "sources"), ("ViewRepresentation", "node_name"), ("OrderRowsNode", "order_columns"), ("OrderRowsNode", "reverse"), ("OrderRowsNode", "limit"))))


KEYS = ["NaturalJoinNode.__init__", "SelectColumnsNode.__init__", "DropColumnsNode.__init__", "OrderRowsNode.__init__"]
