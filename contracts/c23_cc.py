"""Sidecar contract: data_algebra/connected_components.py (property C23).

Vertices are modelled as mathematical integers (any finite totally ordered vertex set embeds into them).
Ghost: R, an ARBITRARY equivalence relation on vertices that contains every edge (f[i], g[i]).
The invariant says the partition kept in `components` is an equivalence containing the processed edges and is finer
than R; at exit it contains all edges, hence it is the finest such equivalence: the connected components.
"""
import z3
from pyvc.api import Contract, T, VDict, VList, VNone, VScalar, VSet, VTuple, forall, fresh_name

F = "data_algebra/connected_components.py"
VERT = T.int
COMP = T.obj("Component")
VLIST = T.list(VERT)


def register(reg):
    reg.add_class("Component", {"id": VERT, "items": T.set(VERT)}, file=F)

    # ---------------------------------------------------------------- Component.__init__
    def comp_fields(c):
        item = c.params["item"]
        return {"id": item, "items": VSet(z3.Store(z3.K(z3.IntSort(), z3.BoolVal(False)), item.z, True), T.set(VERT))}

    def comp_init_ens(c):
        if c.raised:
            return [("no-exception", z3.BoolVal(False))]
        o = z3.Int(fresh_name("o"))
        out = [("id", c.field(c.self, "id").z == c.item.z),
               ("items", c.field(c.self, "items").arr == z3.Store(z3.K(z3.IntSort(), z3.BoolVal(False)), c.item.z, True))]
        for fld in ("id", "items"):
            for n, p in zip(c.heap_parts("Component", fld), c.heap_parts("Component", fld, old=True)):
                out.append(("frame-" + fld, z3.ForAll([o], z3.Implies(o != c.self.z, n[o] == p[o]))))
        return out

    ci = Contract(key="Component.__init__", file=F, qualname="Component.__init__", cls="Component", is_init=True,
                  params={"self": COMP, "item": VERT}, ensures=comp_init_ens, modifies=(("Component", "id"), ("Component", "items")))
    ci.init_fields = comp_fields
    reg.add(ci)

    # ---------------------------------------------------------------- connected_components
    def ghost_R(c):
        """an ARBITRARY equivalence containing every edge, given as the kernel of an uninterpreted function
        (every equivalence relation is the kernel of its quotient map; reflexivity, symmetry and transitivity then
        come from equality reasoning instead of quantified axioms)."""
        S = c.S
        cls = S.func("R_class_of", z3.IntSort(), z3.IntSort())
        R = lambda a, b: cls(a) == cls(b)
        i = z3.Int("R_i")
        f, g = c.params["f"], c.params["g"]
        return R, [
            z3.ForAll([i], z3.Implies(z3.And(0 <= i, i < f.n), R(f.arr[i], g.arr[i])), patterns=[f.arr[i]]),
        ]

    def requires(c):
        return [("same-length", c.f.n == c.g.n)]

    def entry_assume(c):
        return ghost_R(c)[1]

    def keyset(c):
        f, g = c.params["f"], c.params["g"]
        return z3.SetUnion(c.eng.list_mem(f, c.st), c.eng.list_mem(g, c.st))

    def partition_facts(c, D: VDict, upto):
        """the invariant over the current components dict D; `upto` = number of processed edges."""
        S = c.S
        R, _ = ghost_R(c)
        f, g = c.params["f"], c.params["g"]
        keys = keyset(c)
        idp = c.heap_parts("Component", "id")[0]
        itp = c.heap_parts("Component", "items")[0]
        k, k2, m = z3.Ints("inv_k inv_k2 inv_m")
        j = z3.Int("inv_j")
        comp = lambda x: D.val[x]
        return [
            ("keys-fixed", D.dom == keys),
            ("key-in-own-component", z3.ForAll([k], z3.Implies(keys[k], itp[comp(k)][k]))),
            ("members-point-back", z3.ForAll([k, m], z3.Implies(z3.And(keys[k], itp[comp(k)][m]), z3.And(keys[m], comp(m) == comp(k))))),
            ("id-is-least-member", z3.ForAll([k], z3.Implies(keys[k], itp[comp(k)][idp[comp(k)]]))),
            ("id-is-least-member-2", z3.ForAll([k, m], z3.Implies(z3.And(keys[k], itp[comp(k)][m]), idp[comp(k)] <= m))),
            ("finer-than-any-edge-equivalence", z3.ForAll([k, k2], z3.Implies(z3.And(keys[k], keys[k2], comp(k) == comp(k2)), R(k, k2)))),
            ("processed-edges-joined", z3.ForAll([j], z3.Implies(z3.And(0 <= j, j < upto), comp(f.arr[j]) == comp(g.arr[j])), patterns=[f.arr[j]])),
        ]

    def outer_loop(c):
        return partition_facts(c, c.var("components"), c.i)

    def inner_loop(c):
        """for k in donor.items: components[k] = merged   -- dict is D_pre overridden on the processed members."""
        S = c.S
        D = c.var("components")
        Dpre = c.pre_var("components")
        merged = c.var("merged")
        seq = c.seq  # enumeration of donor.items
        idx = seq.idx_fn
        k = z3.Int("in_k")
        return [
            ("keys-fixed", D.dom == Dpre.dom),
            ("processed-members-rebound", z3.ForAll([k], D.val[k] == z3.If(z3.And(seq.mem[k], idx(k) < c.i), merged.z, Dpre.val[k]), patterns=[D.val[k]])),
        ]

    def ensures(c):
        S = c.S
        if c.raised:
            return [("no-exception", z3.BoolVal(False))]
        r = c.result
        if not isinstance(r, VList):
            return [("returns-a-list", z3.BoolVal(False))]
        R, _ = ghost_R(c)
        f, g = c.params["f"], c.params["g"]
        keys = keyset(c)
        D = c.st.env["components"]  # final partition (ghost view of the local at exit)
        comp = lambda x: D.val[x]
        i, j = z3.Ints("e_i e_j")
        k = z3.Int("e_k")
        inr = lambda v: z3.And(0 <= v, v < f.n)
        return [
            ("one-label-per-edge", r.n == f.n),
            ("partition-contains-every-edge", z3.ForAll([i], z3.Implies(inr(i), comp(f.arr[i]) == comp(g.arr[i])))),
            ("partition-is-finest", z3.ForAll([k, j], z3.Implies(z3.And(keys[k], keys[j], comp(k) == comp(j)), R(k, j)))),
            ("label-is-in-the-edge's-block", z3.ForAll([i], z3.Implies(inr(i), z3.And(keys[r.arr[i]], comp(r.arr[i]) == comp(f.arr[i]))))),
            ("label-is-least-of-block", z3.ForAll([i, k], z3.Implies(z3.And(inr(i), keys[k], comp(k) == comp(f.arr[i])), r.arr[i] <= k))),
            ("same-label-iff-same-block", z3.ForAll([i, j], z3.Implies(z3.And(inr(i), inr(j)), (r.arr[i] == r.arr[j]) == (comp(f.arr[i]) == comp(f.arr[j]))))),
        ]

    reg.add(Contract(key="connected_components", file=F, qualname="connected_components", params={"f": VLIST, "g": VLIST}, returns=VLIST,
                     requires=requires, entry_assume=entry_assume, ensures=ensures, loops={0: outer_loop, 1: inner_loop},
                     modifies=(("Component", "id"), ("Component", "items")),
                     note="vertices as integers; ghost R = arbitrary equivalence containing all edges"))
