"""C10, DAG level: one step of ViewRepresentation.columns_used_implementation_ (the recursion that collects, per node, the columns asked of it).

State: `columns_currently_using_records` maps a node's id (merged_rep_id) to the OrderedSet of columns asked of that node so far.
Contract of ONE call on node N with request U (None = all of N's columns), used for the recursive calls and proved for the body:
  (grow)   existing records keep their set object, and no set ever loses a column;
  (self)   afterwards N has a record and it contains U;
  (down)   every source i of N has a record that contains  columns_used_from_sources_N(V)[i],  where V = everything recorded for N after adding U
           -- i.e. the sources are ALWAYS (re-)asked with the full current record of N, also when this call added nothing new to it
              (N may never have been asked before with an empty request: project({'n': '_size()'}) asks NOTHING of a join, which still needs its keys).
Together with the per-node obligations  need_i ⊆ columns_used_from_sources(V)[i]  (c10_columns_used.py) this gives, by induction over the DAG, that every
table's record contains every column that can influence the result (the induction itself is a paper argument: the recursion is verified modularly, one call
against the contract of the calls it makes; termination = finiteness of the DAG is not proved).
Assumed: merged_rep_id() is a function of the node; the records of table nodes are plain sets in the code (same add/update interface as OrderedSet);
the OrderedSet operations are used through their own verified contracts (C24).
"""
import z3
from pyvc.api import Contract, T, VDict, VList, VNone, VOpt, VPy, VScalar, VSet, VStr, VTuple, fresh_name
from contracts.vr_common import F, COLS, NODE, register_classes
import contracts.c24_orderedset as c24

OS = T.obj("OrderedSet")
REC = T.dict(T.atom, OS)
Raised = __import__("pyvc.engine", fromlist=["Raised"]).Raised


def register(reg):
    register_classes(reg)
    if "OrderedSet" not in reg.classes:
        c24.register(reg)

    def rid(S):
        return S.func("merged_rep_id", z3.IntSort(), S.Atom)

    def CU(S):
        """columns_used_from_sources(N, V) as a function of the node and the requested set: index -> set of columns"""
        return S.func("columns_used_from_sources", z3.IntSort(), z3.ArraySort(S.Atom, z3.BoolSort()), z3.ArraySort(z3.IntSort(), z3.ArraySort(S.Atom, z3.BoolSort())))

    def rid_apply(eng, st, argmap, node):
        r = rid(eng.S)(argmap["self"].z)
        st.assume(r != eng.S.NONE)
        return [(st, VScalar(r, T.atom))]

    reg.add(Contract(key="ViewRepresentation.merged_rep_id", cls="ViewRepresentation", params={"self": NODE}, assumed=True, apply=rid_apply, note="merged_rep_id() is a function of the node"))

    def cufs_apply(eng, st, argmap, node):
        S = eng.S
        slf = argmap["self"]
        u = argmap["using"]
        view = eng.set_of(u, st, node).arr
        st.ghost["cu_request_view"] = view
        n = eng.read_field(st, slf, "sources").n
        eng.registry.note("columns_used_from_sources(V) abstracted as a function of (node, V) with one entry per source (its own obligations: the per-class contracts of this property)")
        return [(st, VList(n, CU(S)(slf.z, view), T.list(T.set(T.atom))))]

    reg.add(Contract(key="ViewRepresentation.columns_used_from_sources", cls="ViewRepresentation", params={"self": NODE, "using": OS}, assumed=True, apply=cufs_apply))

    def dom_parts(eng, st):
        return eng.heap_field(st, "OrderedSet", "impl").parts[0]  # Array(obj -> Array(Atom, Bool)): the member set of every OrderedSet object

    def wf(eng, S, rec, parts):
        """every recorded set satisfies the OrderedSet representation invariant (injective insertion stamps), and is allocated"""
        k = z3.Const(fresh_name("wk"), S.Atom)
        o = rec.val[k]
        d = VDict(parts[0][o], parts[1][o], c24.IMPL, parts[2][o], parts[3][o])
        return z3.ForAll([k], z3.Implies(rec.dom[k], c24.inv(S, d)))

    def colnames(eng, st, node_z):
        return eng.list_mem(eng.read_field(st, VScalar(node_z, NODE), "column_names"), st)

    def post(eng, st, S, node_z, want, rec_old, rec_new, dom_old, dom_new, view_before):
        """the three clauses; `want` = member array of the request, `view_before` = member array of N's record before the call (empty if absent)"""
        k = z3.Const(fresh_name("k"), S.Atom)
        a = z3.Const(fresh_name("a"), S.Atom)
        i = z3.Int(fresh_name("i"))
        me = rid(S)(node_z)
        V = z3.SetUnion(view_before, want)
        srcs = eng.read_field(st, VScalar(node_z, NODE), "sources")
        grow = z3.And(z3.ForAll([k], z3.Implies(rec_old.dom[k], z3.And(rec_new.dom[k], rec_new.val[k] == rec_old.val[k]))),
                      z3.ForAll([k, a], z3.Implies(z3.And(rec_old.dom[k], dom_old[rec_old.val[k]][a]), dom_new[rec_old.val[k]][a])))
        mine = z3.And(rec_new.dom[me], z3.IsSubset(V, dom_new[rec_new.val[me]]))
        down = z3.ForAll([i], z3.Implies(z3.And(0 <= i, i < srcs.n),
                                         z3.And(rec_new.dom[rid(S)(srcs.arr[i])], z3.IsSubset(CU(S)(node_z, V)[i], dom_new[rec_new.val[rid(S)(srcs.arr[i])]]))))
        return grow, mine, down

    def request(eng, st, S, node_z, using):
        if using is None or isinstance(using, VNone):
            return colnames(eng, st, node_z), z3.BoolVal(True)
        if isinstance(using, VOpt):
            arr = eng.set_of(using.val, st, None).arr
            return z3.If(using.is_none, colnames(eng, st, node_z), arr), z3.Or(using.is_none, z3.IsSubset(arr, colnames(eng, st, node_z)))
        arr = using.z if isinstance(using, VScalar) else eng.set_of(using, st, None).arr
        return arr, z3.IsSubset(arr, colnames(eng, st, node_z))

    def view_of(S, rec, dom, key):
        return z3.If(rec.dom[key], dom[rec.val[key]], z3.K(S.Atom, z3.BoolVal(False)))

    # ---- the recursive call as seen from a call site
    def rec_apply(eng, st, argmap, node):
        S = eng.S
        callee = argmap["self"]
        using = argmap.get("using")
        rec_old = argmap["columns_currently_using_records"]
        want, ok = request(eng, st, S, callee.z, using)
        out = []
        t, f = eng.branch(st, ok, node)
        if f is not None:
            out.append((f, Raised("ValueError")))
        if t is None:
            return out
        dom_old = dom_parts(eng, t)
        before = view_of(S, rec_old, dom_old, rid(S)(callee.z))
        # havoc: the heap of OrderedSets and the record dictionary
        hf = eng.heap_field(t, "OrderedSet", "impl")
        hf.parts = [z3.Const(fresh_name("H_OrderedSet_impl_rc"), p.sort()) for p in hf.parts]
        dom_new = hf.parts[0]
        rec_new = VDict(z3.Const(fresh_name("rec_dom"), rec_old.dom.sort()), z3.Const(fresh_name("rec_val"), rec_old.val.sort()), rec_old.ty)
        t.assume(z3.Not(rec_new.dom[S.NONE]))
        for fml in post(eng, t, S, callee.z, want, rec_old, rec_new, dom_old, dom_new, before):
            t.assume(fml)
        t.assume(wf(eng, S, rec_new, hf.parts))
        kk = z3.Const(fresh_name("k"), S.Atom)
        t.assume(z3.ForAll([kk], z3.Implies(rec_new.dom[kk], eng.allocated(t, VScalar(rec_new.val[kk], OS)))))
        kw = next((k.value for k in node.keywords if k.arg == "columns_currently_using_records"), None)
        for (s2, o) in eng.store_back(kw, rec_new, t, node):
            out.append((s2, VNone()))
        return out

    def loop_inv(c):
        S, eng, st = c.S, c.eng, c.st
        rec_now = c.var("columns_currently_using_records")
        rec_pre = c.pre_var("columns_currently_using_records")
        dom_now = dom_parts(eng, st)
        dom_pre = c.pre_heap[eng.field_owner("OrderedSet", "impl")].parts[0]
        k = z3.Const(fresh_name("k"), S.Atom)
        a = z3.Const(fresh_name("a"), S.Atom)
        j = z3.Int(fresh_name("j"))
        srcs = c.field(c.self, "sources")
        V = st.ghost.get("cu_request_view")
        if V is None:
            return [("columns_used_from_sources-was-called-before-the-loop", z3.BoolVal(False))]
        grow = z3.And(z3.ForAll([k], z3.Implies(rec_pre.dom[k], z3.And(rec_now.dom[k], rec_now.val[k] == rec_pre.val[k]))),
                      z3.ForAll([k, a], z3.Implies(z3.And(rec_pre.dom[k], dom_pre[rec_pre.val[k]][a]), dom_now[rec_pre.val[k]][a])))
        done = z3.ForAll([j], z3.Implies(z3.And(0 <= j, j < c.i),
                                         z3.And(rec_now.dom[rid(S)(srcs.arr[j])], z3.IsSubset(CU(S)(c.self.z, V)[j], dom_now[rec_now.val[rid(S)(srcs.arr[j])]]))))
        parts_now = eng.heap_field(st, "OrderedSet", "impl").parts
        alloc = z3.ForAll([k], z3.Implies(rec_now.dom[k], eng.allocated(st, VScalar(rec_now.val[k], OS))))
        return [("records-only-grow-since-the-loop-started", grow), ("every-visited-source-has-been-asked-for-what-this-node-needs-of-it", done),
                ("recorded-sets-are-well-formed", z3.And(wf(eng, S, rec_now, parts_now), alloc))]

    def ens(c):
        S, eng, st = c.S, c.eng, c.st
        if c.raised:
            return []
        rec_old = c.columns_currently_using_records
        rec_new = st.env["columns_currently_using_records"]
        dom_new = dom_parts(eng, st)
        dom_old = c.old_heap[eng.field_owner("OrderedSet", "impl")].parts[0]
        want, _ = request(eng, st, S, c.self.z, c.using)
        before = view_of(S, rec_old, dom_old, rid(S)(c.self.z))
        grow, mine, down = post(eng, st, S, c.self.z, want, rec_old, rec_new, dom_old, dom_new, before)
        grow_keys, grow_sets = grow.arg(0), grow.arg(1)  # two separate obligations: smaller queries are steadier
        kk = z3.Const(fresh_name("k"), S.Atom)
        return [("recorded-sets-stay-well-formed", z3.And(wf(eng, S, rec_new, eng.heap_field(st, "OrderedSet", "impl").parts), z3.ForAll([kk], z3.Implies(rec_new.dom[kk], eng.allocated(st, VScalar(rec_new.val[kk], OS)))))),
                ("existing-records-keep-their-set-object", grow_keys),
                ("no-recorded-set-loses-a-column", grow_sets),
                ("this-node-has-a-record-containing-the-request-and-everything-asked-before", mine),
                ("every-source-is-asked-for-what-this-node-needs-of-it-given-its-FULL-record (also when this call added nothing new)", down)]

    def req(c):
        S, eng, st = c.S, c.eng, c.st
        rec = c.columns_currently_using_records
        k = z3.Const(fresh_name("k"), S.Atom)
        k2 = z3.Const(fresh_name("k2"), S.Atom)
        return [("recorded-sets-are-well-formed", wf(eng, S, rec, eng.heap_field(st, "OrderedSet", "impl").parts)),
                ("records-are-allocated-sets", z3.ForAll([k], z3.Implies(rec.dom[k], eng.allocated(st, VScalar(rec.val[k], OS))))),
                ("sources-allocated", z3.ForAll([z3.Int("sj")], z3.Implies(z3.And(0 <= z3.Int("sj"), z3.Int("sj") < c.field(c.self, "sources").n), eng.allocated(st, VScalar(c.field(c.self, "sources").arr[z3.Int("sj")], NODE)))))]

    reg.add(Contract(key="ViewRepresentation.columns_used_implementation_", file=F, qualname="ViewRepresentation.columns_used_implementation_", cls="ViewRepresentation",
                     params={"self": NODE, "using": T.opt(T.set(T.atom)), "columns_currently_using_records": REC}, ensures=ens, requires=req, allow_raises=True,
                     apply=rec_apply, loops={0: loop_inv}, modifies=(("OrderedSet", "impl"),), mutates_args=("columns_currently_using_records",),
                     names=("columns_used_implementation_",)))


KEYS = ["ViewRepresentation.columns_used_implementation_"]
