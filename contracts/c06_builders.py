"""Sidecar contracts: the builder methods of ViewRepresentation (properties C06-3/4/5, C07, C26-forwarding).

Every builder B(self, args) is abstracted, at call sites, by an uninterpreted function  build_B(self, args...)  of ALL its
arguments (flags included); every node constructor by  new_C(args...).  The obligations proved from the real bodies:

  forwarding   on the `is_trivial_when_intermediate_()` path the result is build_B(self.sources[0], <the same arguments>)
               -- so an eliminated order_rows can never change which steps/options (e.g. join-key checks) are applied;
  construction otherwise the result is new_C(self, <the same arguments>) (or the documented no-op `self`);
  rebuild      X.replace_leaves(m) = build_B(replace_leaves(source, m), <every stored constructor argument of X>).

Because build_B / new_C are uninterpreted, dropping, defaulting or changing any argument makes the equality unprovable and
the finite-scope search returns a counter-model.
"""
import z3
from pyvc.api import Contract, T, VDict, VList, VNone, VOpt, VPy, VScalar, VSet, VStr, VTuple, fresh_name, veq
from pyvc.values import flatten
from contracts.vr_common import F, EXPR, COLS, NODE, OPS, register_classes, cols_fn, colset

RMAP = T.dict(T.atom, NODE)


def zargs(eng, st, vals):
    """flatten argument values into z3 terms (None / 1 / lists / dicts / scalars) with a fixed shape per position."""
    out = []
    for v in vals:
        if isinstance(v, VNone):
            out.append(eng.S.NONE)
        elif isinstance(v, VStr):
            out.append(eng.S.str_const(v.s))
        elif isinstance(v, VPy) and isinstance(v.obj, bool):
            out.append(z3.BoolVal(v.obj))
        elif isinstance(v, VPy) and isinstance(v.obj, int):
            out.append(z3.IntVal(v.obj))
        elif isinstance(v, VTuple):
            l = eng.list_of(v, st)
            out += [l.n, l.arr]
        elif isinstance(v, VOpt):
            out += [v.is_none] + flatten(v.val)
        else:
            out += flatten(v)
    return out


def ufun(eng, name, zs, ret=None):
    ret = ret or z3.IntSort()
    sig = [z.sort() for z in zs] + [ret]
    nm = name + "__" + "_".join(str(s).replace(" ", "").replace("(", "").replace(")", "").replace(",", "_") for s in sig[:-1])
    return eng.S.func(nm, *sig)(*zs)


def register(reg):
    register_classes(reg)

    # ---- virtual: is_trivial_when_intermediate_  (base returns False; OrderRowsNode returns limit is None)
    def trivial_formula(eng, st, node):
        lim = eng.read_field(st, VScalar(node.z, T.obj("OrderRowsNode")), "limit")
        return z3.And(eng.tag_of(st, node) == eng.classes["OrderRowsNode"].tag, lim.is_none)

    def trivial_apply(eng, st, argmap, node):
        return [(st, VScalar(trivial_formula(eng, st, argmap["self"]), T.bool))]

    reg.add(Contract(key="ViewRepresentation.is_trivial_when_intermediate_", cls="ViewRepresentation", params={"self": NODE}, assumed=False, apply=trivial_apply,
                     file=F, qualname="ViewRepresentation.is_trivial_when_intermediate_", returns=T.bool,
                     requires=lambda c: [("not-an-order-node (the override has its own contract)", c.eng.tag_of(c.st, c.self) != c.eng.classes["OrderRowsNode"].tag)],
                     ensures=lambda c: [("only-order_rows-without-limit-is-trivial", (c.result.z if isinstance(c.result, VScalar) else z3.BoolVal(bool(c.result.obj))) == trivial_formula(c.eng, c.st, c.self))]))
    reg.add(Contract(key="OrderRowsNode.is_trivial_when_intermediate_", cls="OrderRowsNode", params={"self": T.obj("OrderRowsNode")}, apply=trivial_apply,
                     file=F, qualname="OrderRowsNode.is_trivial_when_intermediate_", returns=T.bool,
                     ensures=lambda c: [("only-order_rows-without-limit-is-trivial", (c.result.z if isinstance(c.result, VScalar) else z3.BoolVal(bool(c.result.obj))) == trivial_formula(c.eng, c.st, c.self))]))

    def src0(c, node):
        s = c.field(node, "sources")
        return VScalar(s.arr[0], NODE)

    # ---- generic machinery -------------------------------------------------------------------------------------
    BUILDERS = {}  # name -> (param names in order, types)

    def builder(name, params, node_cls=None, ctor_args=None, noop=None, extra_ens=None, may_raise=(), loops=None, qual=None, pre=None, call_guarantee=None, canon=None):
        """params: ordered dict name->Ty of the builder's parameters (as the verified variant sees them)."""
        pnames = list(params)
        BUILDERS[name] = pnames

        def call_apply(eng, st, argmap, node):
            vals = [argmap["self"]] + (canon(eng, st, argmap) if canon else [argmap.get(p, VNone()) for p in pnames])
            res = [(st, VScalar(ufun(eng, "build_" + name, zargs(eng, st, vals)), NODE))]
            if call_guarantee:
                from pyvc.contracts import Ctx
                st.assume(call_guarantee(Ctx(eng, st, argmap, st.heap_snapshot())))
            for exc in may_raise:
                res.append((st.fork(), __import__("pyvc.engine", fromlist=["Raised"]).Raised(exc)))
            return res

        def ensures(c):
            if c.raised:
                return []  # which inputs are rejected is C26's business (constructors); here: what is built when something is built
            eng, st = c.eng, c.st
            r = c.result
            if not (isinstance(r, VScalar) and r.ty.kind == "obj"):
                return [("returns-a-pipeline", z3.BoolVal(False))]
            triv = trivial_formula(eng, st, c.self)
            args = canon(eng, st, c.params) if canon else [c.params[p] for p in pnames]
            fwd = ufun(eng, "build_" + name, zargs(eng, st, [src0(c, c.self)] + args))
            fcases = [r.z == fwd]
            if noop:
                fcases.append(z3.And(r.z == c.self.z, noop(c)))
            out = [("eliminated-order_rows-forwards-every-argument", z3.Implies(triv, z3.Or(*fcases)))]
            if node_cls:
                new = ufun(eng, "new_" + node_cls, zargs(eng, st, ctor_args(c) if ctor_args else [c.self] + args))
                cases = [r.z == new]
                if noop:
                    cases.append(z3.And(r.z == c.self.z, noop(c)))
                out.append(("otherwise-builds-the-node-from-every-argument", z3.Implies(z3.Not(triv), z3.Or(*cases))))
            if extra_ens:
                out += extra_ens(c)
            return out

        def requires(c):
            out = [("self-has-a-source-when-it-is-an-order-node", z3.Implies(trivial_formula(c.eng, c.st, c.self), c.field(c.self, "sources").n == 1)),
                   ("source-allocated", z3.Implies(trivial_formula(c.eng, c.st, c.self), c.eng.allocated(c.st, src0(c, c.self))))]
            if pre:
                out += pre(c)
            return out

        reg.add(Contract(key="ViewRepresentation." + name, file=F, qualname="ViewRepresentation." + (qual or name), cls="ViewRepresentation",
                         params=dict({"self": NODE}, **params), returns=NODE, requires=requires, ensures=ensures, apply=call_apply, loops=loops or {}))

    def ctor(cls, pnames, may_raise=("ValueError", "KeyError"), guarantee=None):
        """node constructors at call sites: new_C(all arguments), or one of the documented rejections (verified under C26)."""
        def apply(eng, st, argmap, node):
            vals = [argmap.get(p, VNone()) for p in pnames]
            res = [(st, VScalar(ufun(eng, "new_" + cls, zargs(eng, st, vals)), T.obj(cls)))]
            if guarantee:
                from pyvc.contracts import Ctx
                st.assume(guarantee(Ctx(eng, st, argmap, st.heap_snapshot())))
            for exc in may_raise:
                res.append((st.fork(), __import__("pyvc.engine", fromlist=["Raised"]).Raised(exc)))
            eng.registry.note("constructor %s abstracted as new_%s(all arguments) or a rejection" % (cls, cls))
            return res
        reg.add(Contract(key="%s.__init__" % cls, cls=cls, is_init=True, params={p: T.atom for p in pnames}, assumed=True, apply=apply))

    ctor("NaturalJoinNode", ["a", "b", "on_a", "on_b", "jointype", "check_all_common_keys_in_equi_spec"])
    ctor("ConcatRowsNode", ["a", "b", "id_column", "a_name", "b_name"])
    ctor("SelectRowsNode", ["source", "ops"])
    ctor("DropColumnsNode", ["source", "column_deletions"])
    ctor("SelectColumnsNode", ["source", "columns"],
         guarantee=lambda c: z3.IsSubset(c.eng.list_mem(c.eng.list_of(c.params["columns"], c.st), c.st), colset(c, c.params["source"])))  # proved for the constructor itself under C26
    ctor("MapColumnsNode", ["source", "column_remapping"])
    ctor("RenameColumnsNode", ["source", "column_remapping"])
    ctor("OrderRowsNode", ["source", "columns", "reverse", "limit"])
    ctor("ConvertRecordsNode", ["source", "record_map"])
    ctor("ProjectNode", ["source", "parsed_ops", "group_by"])
    ctor("ExtendNode", ["source", "parsed_ops", "partition_by", "order_by", "reverse"])

    # _convert_on_clause_to_parallel_lists(on) for a list of column names: both sides are that list (assumed; loop over str items)
    def on_apply(eng, st, argmap, node):
        on = argmap["on"]
        eng.registry.note("assumed contract: _convert_on_clause_to_parallel_lists(list of str) = (that list, that list)")
        if isinstance(on, VNone):
            e = VTuple([], is_list=True)
            return [(st, VTuple([e, VTuple([], is_list=True)]))]
        l = eng.list_of(on, st, node)
        return [(st, VTuple([VList(l.n, l.arr, l.ty), VList(l.n, l.arr, l.ty)]))]

    reg.add(Contract(key="_convert_on_clause_to_parallel_lists", params={"on": T.opt(COLS)}, assumed=True, apply=on_apply))

    # ---- the builders ------------------------------------------------------------------------------------------
    builder("natural_join", {"b": NODE, "on": T.opt(COLS), "jointype": T.atom, "check_all_common_keys_in_equi_spec": T.bool, "by": Ty_none(), "check_all_common_keys_in_by": T.bool},
            node_cls="NaturalJoinNode",
            ctor_args=lambda c: [c.self, c.b, on_list(c), on_list(c), c.jointype, VScalar(z3.Or(c.check_all_common_keys_in_equi_spec.z, c.check_all_common_keys_in_by.z), T.bool)],
            pre=lambda c: [("b-allocated", c.eng.allocated(c.st, c.b))],
            canon=lambda eng, st, a: [a["b"], (a.get("by") if not isinstance(a.get("by", VNone()), VNone) else a.get("on", VNone())), a["jointype"],
                                      VScalar(z3.Or(_flag(eng, st, a.get("check_all_common_keys_in_equi_spec")), _flag(eng, st, a.get("check_all_common_keys_in_by"))), T.bool)])
    builder("concat_rows", {"b": NODE, "id_column": T.oatom, "a_name": T.atom, "b_name": T.atom}, node_cls="ConcatRowsNode",
            pre=lambda c: [("b-allocated", c.eng.allocated(c.st, c.b))])
    builder("select_rows_parsed_", {"parsed_expr": OPS}, node_cls="SelectRowsNode")
    builder("drop_columns", {"column_deletions": COLS}, node_cls="DropColumnsNode", noop=lambda c: c.column_deletions.n < 1)
    builder("map_columns", {"column_remapping": T.dict(T.atom, T.oatom)}, node_cls="MapColumnsNode", noop=lambda c: z3.Not(c.eng.nonempty(c.column_remapping.dom)))
    builder("rename_columns", {"column_remapping": T.dict(T.atom, T.atom)}, node_cls="RenameColumnsNode", noop=lambda c: z3.Not(c.eng.nonempty(c.column_remapping.dom)))
    builder("order_rows", {"columns": COLS, "reverse": T.opt(COLS), "limit": T.opt(T.int)}, node_cls="OrderRowsNode",
            noop=lambda c: z3.And(c.columns.n < 1, z3.BoolVal(isinstance(c.limit, VNone))))
    builder("convert_records", {"record_map": T.obj("RecordMap")}, node_cls="ConvertRecordsNode", pre=lambda c: [("record-map-allocated", c.eng.allocated(c.st, c.record_map))])

    # select_columns: additionally collapses through SelectColumnsNode / DropColumnsNode (C06-4)
    def select_columns_ens(c):
        eng, st = c.eng, c.st
        r = c.result
        tag = eng.tag_of(st, c.self)
        is_sel = tag == eng.classes["SelectColumnsNode"].tag
        is_drop = tag == eng.classes["DropColumnsNode"].tag
        triv = trivial_formula(eng, st, c.self)
        own = colset(c, c.self)
        want = eng.list_mem(c.columns, st)
        collapse = ufun(eng, "build_select_columns", zargs(eng, st, [src0(c, c.self), c.columns]))
        new = ufun(eng, "new_SelectColumnsNode", zargs(eng, st, [c.self, c.columns]))
        return [
            ("only-columns-of-this-step-can-be-selected (a dropped column must not come back)", z3.IsSubset(want, own)),
            ("collapsing-keeps-the-selection", z3.Implies(z3.And(z3.Not(triv), z3.Or(is_sel, is_drop), r.z != c.self.z), r.z == collapse)),
            ("otherwise-builds-the-node-from-every-argument", z3.Implies(z3.And(z3.Not(triv), z3.Not(is_sel), z3.Not(is_drop), r.z != c.self.z), r.z == new)),
        ]

    builder("select_columns", {"columns": COLS}, extra_ens=select_columns_ens, noop=lambda c: veq(c.columns, c.field(c.self, "column_names")),
            call_guarantee=lambda c: z3.IsSubset(c.eng.list_mem(c.eng.list_of(c.params["columns"], c.st), c.st), colset(c, c.params["self"])),
            pre=lambda c: [("order_rows-keeps-its-source's-columns (constructor)", z3.Implies(trivial_formula(c.eng, c.st, c.self), colset(c, c.self) == colset(c, src0(c, c.self)))),
                           ("select/drop-keep-a-subset-of-their-source's-columns (constructor)", z3.Implies(z3.Or(c.eng.tag_of(c.st, c.self) == c.eng.classes["SelectColumnsNode"].tag, c.eng.tag_of(c.st, c.self) == c.eng.classes["DropColumnsNode"].tag), z3.IsSubset(colset(c, c.self), colset(c, src0(c, c.self))))),
                           ("source-allocated-when-collapsing", z3.Implies(z3.Or(c.eng.tag_of(c.st, c.self) == c.eng.classes["SelectColumnsNode"].tag, c.eng.tag_of(c.st, c.self) == c.eng.classes["DropColumnsNode"].tag),
                                                                          z3.And(c.field(c.self, "sources").n == 1, c.eng.allocated(c.st, src0(c, c.self)))))])

    # project_parsed_: group_by normalised by _work_col_group_arg (assumed: a list stays that list, unknown columns are rejected)
    def wcg_apply(eng, st, argmap, node):
        a = argmap["arg"]
        eng.registry.note("assumed contract: _work_col_group_arg(list of known columns) returns that list; None gives []; rejects unknown columns / duplicates")
        res = []
        if isinstance(a, VNone):
            res.append((st, VTuple([], is_list=True)))
        elif isinstance(a, VPy) and a.obj == 1:
            res.append((st, VPy(1)))
        else:
            l = eng.list_of(a, st, node)
            res.append((st, VList(l.n, l.arr, l.ty)))
        res.append((st.fork(), __import__("pyvc.engine", fromlist=["Raised"]).Raised("AssertionError")))
        return res

    reg.add(Contract(key="_work_col_group_arg", params={"arg": T.opt(COLS), "arg_name": T.atom, "columns": COLS}, assumed=True, apply=wcg_apply))
    builder("project_parsed_", {"parsed_ops": OPS, "group_by": COLS}, node_cls="ProjectNode")

    # ---- replace_leaves (C07): rebuild-complete ---------------------------------------------------------------
    def RL(eng, st, node, m):
        return ufun(eng, "replace_leaves", zargs(eng, st, [node, m]))

    def rl_virtual(eng, st, argmap, node):
        eng.registry.note("virtual call source.replace_leaves(m): abstracted as replace_leaves(source, m), the function the per-class obligations define")
        return [(st, VScalar(RL(eng, st, argmap["self"], argmap["replacement_map"]), NODE))]

    reg.add(Contract(key="ViewRepresentation.replace_leaves", cls="ViewRepresentation", params={"self": NODE, "replacement_map": RMAP}, assumed=True, apply=rl_virtual))

    def node_unchanged(c, cls):
        """every modelled field of the node (and of its base class) is as it was at the call"""
        eqs = []
        for cn in (cls, "ViewRepresentation"):
            for fname in c.eng.classes[cn].fields:
                eqs.append(veq(c.field(c.self, fname), c.old_field(c.self, fname)))
        return z3.And(*eqs)

    def rebuild(cls, bname, stored, nsrc=1):
        def ensures(c):
            if c.raised:
                return [("no-exception (binding the builder's real signature)", z3.BoolVal(False))]
            eng, st = c.eng, c.st
            srcs = c.field(c.self, "sources")
            new0 = VScalar(RL(eng, st, VScalar(srcs.arr[0], NODE), c.replacement_map), NODE)
            vals = [new0]
            if nsrc == 2:
                vals.append(VScalar(RL(eng, st, VScalar(srcs.arr[1], NODE), c.replacement_map), NODE))
            vals += stored(c)
            want = ufun(eng, "build_" + bname, zargs(eng, st, vals))
            return [("rebuilt-from-the-replaced-sources-and-every-stored-argument", c.result.z == want), ("the-node-itself-is-not-modified", node_unchanged(c, cls))]

        def requires(c):
            srcs = c.field(c.self, "sources")
            out = [("source-count", srcs.n == nsrc)]
            for i in range(nsrc):
                out.append(("source%d-allocated" % i, c.eng.allocated(c.st, VScalar(srcs.arr[i], NODE))))
            return out

        reg.add(Contract(key="%s.replace_leaves" % cls, file=F, qualname="%s.replace_leaves" % cls, cls=cls, params={"self": T.obj(cls), "replacement_map": RMAP},
                         returns=NODE, requires=requires, ensures=ensures))

    def fld(name):
        return lambda c: c.field(c.self, name)

    rebuild("ProjectNode", "project_parsed_", lambda c: [c.field(c.self, "ops"), c.field(c.self, "group_by")])
    rebuild("SelectRowsNode", "select_rows_parsed_", lambda c: [c.field(c.self, "ops")])
    rebuild("SelectColumnsNode", "select_columns", lambda c: [c.field(c.self, "column_selection")])
    rebuild("DropColumnsNode", "drop_columns", lambda c: [c.field(c.self, "column_deletions")])
    rebuild("OrderRowsNode", "order_rows", lambda c: [c.field(c.self, "order_columns"), c.field(c.self, "reverse"), c.field(c.self, "limit")])
    rebuild("RenameColumnsNode", "rename_columns", lambda c: [c.field(c.self, "column_remapping")])
    rebuild("ConvertRecordsNode", "convert_records", lambda c: [c.field(c.self, "record_map")])
    rebuild("ConcatRowsNode", "concat_rows", lambda c: [c.field(c.self, "id_column"), c.field(c.self, "a_name"), c.field(c.self, "b_name")], nsrc=2)

    # map_columns stores renames and deletions separately; the rebuilt step must get both back (value None = delete)
    def map_stored(c):
        S = c.S
        rm = c.field(c.self, "column_remapping")
        dels = c.eng.list_mem(c.field(c.self, "column_deletions"), c.st)
        k = z3.Const(fresh_name("mk"), S.Atom)
        val = z3.Const(fresh_name("full_map_val"), rm.val.sort())
        c.st.assume(z3.ForAll([k], val[k] == z3.If(dels[k], S.NONE, rm.val[k]), patterns=[val[k]]))
        return [VDict(z3.SetUnion(rm.dom, dels), val, T.dict(T.atom, T.oatom))]

    rebuild("MapColumnsNode", "map_columns", map_stored)

    # natural_join: keys go back as (on_a[i], on_b[i]) pairs -- abstracted by the pair of lists; jointype as stored
    def join_on_apply(eng, st, argmap, node):
        return None

    def join_stored(c):
        return None

    # extend: partition_by=1 is stored as [] + windowed_situation
    def extend_rl_ens(c):
        if c.raised:
            return [("no-exception (binding the builder's real signature)", z3.BoolVal(False))]
        eng, st = c.eng, c.st
        srcs = c.field(c.self, "sources")
        new0 = VScalar(RL(eng, st, VScalar(srcs.arr[0], NODE), c.replacement_map), NODE)
        pb = c.field(c.self, "partition_by")
        win = c.field(c.self, "windowed_situation").z
        as_list = ufun(eng, "build_extend_parsed_", zargs(eng, st, [new0, c.field(c.self, "ops"), pb, c.field(c.self, "order_by"), c.field(c.self, "reverse")]))
        as_one = ufun(eng, "build_extend_parsed_", zargs(eng, st, [new0, c.field(c.self, "ops"), VPy(1), c.field(c.self, "order_by"), c.field(c.self, "reverse")]))
        want = z3.If(z3.And(win, pb.n < 1), as_one, as_list)
        return [("rebuilt-from-the-replaced-source-and-every-stored-argument (partition_by=1 restored)", c.result.z == want), ("the-node-itself-is-not-modified", node_unchanged(c, "ExtendNode"))]

    def ext_call_apply(eng, st, argmap, node):
        vals = [argmap["self"]] + [argmap.get(p, VNone()) for p in ("parsed_ops", "partition_by", "order_by", "reverse")]
        return [(st, VScalar(ufun(eng, "build_extend_parsed_", zargs(eng, st, vals)), NODE))]

    reg.add(Contract(key="ViewRepresentation.extend_parsed_", cls="ViewRepresentation", params={"self": NODE}, assumed=True, apply=ext_call_apply,
                     note="builder abstracted as build_extend_parsed_(self, all arguments); its own body is covered by the merge obligation (try_to_merge_ops) and the bounded run"))
    reg.add(Contract(key="ExtendNode.replace_leaves", file=F, qualname="ExtendNode.replace_leaves", cls="ExtendNode", params={"self": T.obj("ExtendNode"), "replacement_map": RMAP},
                     returns=NODE, requires=lambda c: [("source-count", c.field(c.self, "sources").n == 1), ("source-allocated", c.eng.allocated(c.st, VScalar(c.field(c.self, "sources").arr[0], NODE)))],
                     ensures=extend_rl_ens))


def register_all(reg):
    register(reg)
    register_extend(reg)


def _flag(eng, st, v):
    """a bool argument that may be absent (default False) or a concrete python bool"""
    if v is None or isinstance(v, VNone):
        return z3.BoolVal(False)
    if isinstance(v, VPy):
        return z3.BoolVal(bool(v.obj))
    return v.z


def Ty_none():
    from pyvc.values import Ty
    return Ty("py", (None,))


def on_list(c):
    on = c.params["on"]
    if isinstance(on, VNone):
        return VTuple([], is_list=True)
    return on


KEYS = ["ViewRepresentation.is_trivial_when_intermediate_", "OrderRowsNode.is_trivial_when_intermediate_"] + \
       ["ViewRepresentation." + b for b in ("natural_join", "concat_rows", "select_rows_parsed_", "drop_columns", "map_columns", "rename_columns", "order_rows", "convert_records", "select_columns", "project_parsed_")] + \
       ["%s.replace_leaves" % c for c in ("ProjectNode", "SelectRowsNode", "SelectColumnsNode", "DropColumnsNode", "OrderRowsNode", "RenameColumnsNode", "ConvertRecordsNode", "ConcatRowsNode", "MapColumnsNode", "ExtendNode")]


# ====================================================================== extend_parsed_: when may two extends be merged (C06-2)
def register_extend(reg):
    import contracts.c06_merge as cm
    from spec.sem_z3 import TableSem
    if "try_to_merge_ops" not in reg.contracts:
        cm.register(reg)
    Raised = __import__("pyvc.engine", fromlist=["Raised"]).Raised

    def iw(S):
        return S.func("implies_windowed", z3.ArraySort(S.Atom, z3.BoolSort()), z3.ArraySort(S.Atom, S.sort("Expr")), z3.BoolSort())

    def iw_apply(eng, st, argmap, node):
        d = argmap["parsed_exprs"]
        eng.registry.note("assumed: expr_rep.implies_windowed(ops) is a pure function of the assignment map")
        return [(st, VScalar(iw(eng.S)(d.dom, d.val), T.bool))]

    reg.add(Contract(key="data_algebra.expr_rep.implies_windowed", params={"parsed_exprs": OPS}, assumed=True, apply=iw_apply))

    def trivial_formula(eng, st, node):
        lim = eng.read_field(st, VScalar(node.z, T.obj("OrderRowsNode")), "limit")
        return z3.And(eng.tag_of(st, node) == eng.classes["OrderRowsNode"].tag, lim.is_none)

    def is_one(v):
        return isinstance(v, VPy) and v.obj == 1

    def plen(v):
        """number of partition columns of a normalised partition_by argument (1 means 'one big partition': no columns)"""
        if is_one(v) or isinstance(v, VNone):
            return z3.IntVal(0)
        if isinstance(v, VTuple):
            return z3.IntVal(len(v.items))
        return v.n

    def ens(c):
        eng, st, S = c.eng, c.st, c.S
        if c.raised:
            return []
        r = c.result
        if not (isinstance(r, VScalar) and r.ty.kind == "obj"):
            return [("returns-a-pipeline", z3.BoolVal(False))]
        pb, ob, rev = c.partition_by, c.order_by, c.reverse
        args = [c.parsed_ops, pb, ob, rev]
        triv = trivial_formula(eng, st, c.self)
        src = VScalar(c.old_field(c.self, "sources").arr[0], NODE)
        fwd = ufun(eng, "build_extend_parsed_", zargs(eng, st, [src] + args))
        plain = ufun(eng, "new_ExtendNode", zargs(eng, st, [c.self] + args))
        out = [("eliminated-order_rows-forwards-every-argument", z3.Implies(triv, r.z == fwd))]
        is_ext = eng.tag_of(st, c.self) == eng.classes["ExtendNode"].tag
        me = VScalar(c.self.z, T.obj("ExtendNode"))
        merged = st.ghost.get("last_merge_result")
        # windowed-ness of the NEW step as ExtendNode.__init__ decides it: an aggregating op, partition_by=1, partition columns or order columns
        new_windowed = z3.Or(iw(S)(c.parsed_ops.dom, c.parsed_ops.val), z3.BoolVal(is_one(pb)), plen(pb) > 0, plen(ob) > 0)
        same_spec = z3.And(is_ext, plen(pb) == c.old_field(me, "partition_by").n,
                           eng.zbool(__import__("pyvc.engine", fromlist=["veq_safe"]).veq_safe(eng, ob, c.old_field(me, "order_by"), st, None)),
                           eng.zbool(__import__("pyvc.engine", fromlist=["veq_safe"]).veq_safe(eng, rev, c.old_field(me, "reverse"), st, None)))
        if merged is None:
            out.append(("without-a-merge-the-new-step-is-built-on-this-step-from-every-argument", z3.Implies(z3.Not(triv), r.z == plain)))
            return out
        mnode = ufun(eng, "new_ExtendNode", zargs(eng, st, [src, merged] + [pb, ob, rev]))
        out.append(("merged-node-sits-on-this-step's-source-with-the-merged-assignments-and-the-same-window", z3.Implies(z3.Not(triv), z3.Or(r.z == plain, r.z == mnode))))
        same_part = (eng.zbool(__import__("pyvc.engine", fromlist=["veq_safe"]).veq_safe(eng, pb, c.old_field(me, "partition_by"), st, None))
                     if not is_one(pb) else c.old_field(me, "partition_by").n == 0)
        out.append(("merges-only-steps-with-the-same-partition-order-and-reverse", z3.Implies(z3.And(z3.Not(triv), r.z == mnode, r.z != plain), z3.And(same_spec, same_part))))
        wname = "merges-only-steps-of-the-same-windowed-ness" + ("[partition_by=1]" if is_one(pb) else "[partition_by is a column list]")
        out.append((wname, z3.Implies(z3.And(z3.Not(triv), r.z == mnode, r.z != plain), new_windowed == c.old_field(me, "windowed_situation").z)))
        return out

    def merge_apply(eng, st, argmap, node):
        """call-site view of try_to_merge_ops (its own contract is discharged separately): None, or a merged map recorded for the postcondition"""
        S = eng.S
        facts = []
        from pyvc.values import fresh
        m = fresh(S, OPS, "merged_ops", facts)
        for f in facts:
            st.assume(f)
        no = st.fork()
        st.ghost["last_merge_result"] = m
        return [(st, m), (no, VNone())]

    def requires(c):
        out = [("self-has-a-source-when-it-is-an-order-or-extend-node", z3.Implies(z3.Or(trivial_formula(c.eng, c.st, c.self), c.eng.tag_of(c.st, c.self) == c.eng.classes["ExtendNode"].tag),
                                                                                 z3.And(c.field(c.self, "sources").n == 1, c.eng.allocated(c.st, VScalar(c.field(c.self, "sources").arr[0], NODE)))))]
        return out

    # inside extend_parsed_ the merge helper is abstracted; its semantic contract (merged = sequential) is the obligation of try_to_merge_ops itself
    reg.contracts["try_to_merge_ops"].apply = merge_apply

    # ---- region contract: the merge decision itself (the suffix of extend_parsed_ starting at `if isinstance(self, ExtendNode):`).
    # The statements before it (argument normalisation by _work_col_group_arg, the disjointness checks, the forward through an eliminated
    # order_rows) are NOT part of the region; what they establish enters as the region's precondition: partition_by is 1 or a list,
    # order_by and reverse are lists, and this step is not an eliminable order_rows.
    import ast as _ast

    def merge_region(fn):
        for i, stmt in enumerate(fn.body):
            if isinstance(stmt, _ast.If) and _ast.unparse(stmt.test) == "isinstance(self, ExtendNode)":
                return fn.body[i:]
        return []

    def distinct_list(v):
        if not isinstance(v, VList):
            return z3.BoolVal(True)
        i, j = z3.Int(fresh_name("di")), z3.Int(fresh_name("dj"))
        return z3.ForAll([i, j], z3.Implies(z3.And(0 <= i, i < j, j < v.n), v.arr[i] != v.arr[j]))

    def disjoint_lists(c, a, b):
        if not (isinstance(a, VList) and isinstance(b, VList)):
            return z3.BoolVal(True)
        return z3.SetIntersect(c.eng.list_mem(a, c.st), c.eng.list_mem(b, c.st)) == z3.K(c.S.Atom, z3.BoolVal(False))

    def region_entry(c):
        me = VScalar(c.self.z, T.obj("ExtendNode"))
        # for the concretiser: the entry values of this step's window specification (read back from a counter-model)
        c.params["__self_spec__"] = {"partition_by": c.field(me, "partition_by"), "order_by": c.field(me, "order_by"), "reverse": c.field(me, "reverse"),
                                     "windowed": c.field(me, "windowed_situation"), "is_extend": c.eng.tag_of(c.st, c.self) == c.eng.classes["ExtendNode"].tag}
        # len() of a Python list is never negative (a fact of the encoding, not of the code)
        # established by the statements the region drops: _work_col_group_arg returns duplicate-free lists, the prefix rejects overlapping partition / order columns,
        # and ExtendNode.__init__ rejects duplicates and overlaps in the stored specification
        wf_lists = [distinct_list(c.field(me, f)) for f in ("partition_by", "order_by", "reverse")] + [distinct_list(getattr(c, f)) for f in ("partition_by", "order_by", "reverse")] + \
                   [disjoint_lists(c, c.field(me, "partition_by"), c.field(me, "order_by")), disjoint_lists(c, c.partition_by, c.order_by)]
        return [z3.Not(trivial_formula(c.eng, c.st, c.self))] + [c.field(me, f).n >= 0 for f in ("partition_by", "order_by", "reverse")] + wf_lists

    def concretize_decision(model, params, S):
        """plain-data case from a counter-model: the window specification of the existing extend step and of the new one"""
        from contracts.c06_merge import model_atoms
        names = model_atoms(model, S)
        def nm(z):
            v = model.eval(z, model_completion=True)
            return names.get(str(v), ("c_unnamed", None))[0]
        def lst(v):
            if isinstance(v, VPy):
                return v.obj
            n = model.eval(v.n, model_completion=True).as_long()
            if n < 0 or n > 6:
                raise ValueError("list length %d outside the replayable scope" % n)
            return [nm(v.arr[i]) for i in range(n)]
        sp = params["__self_spec__"]
        ops = params["parsed_ops"]
        iwf = S.func("implies_windowed", z3.ArraySort(S.Atom, z3.BoolSort()), z3.ArraySort(S.Atom, S.sort("Expr")), z3.BoolSort())
        return {"columns": sorted(n for (n, a) in names.values()),
                "self": {"is_extend": z3.is_true(model.eval(sp["is_extend"], model_completion=True)), "partition_by": lst(sp["partition_by"]), "order_by": lst(sp["order_by"]), "reverse": lst(sp["reverse"]),
                         "windowed": z3.is_true(model.eval(sp["windowed"].z, model_completion=True))},
                "new": {"partition_by": lst(params["partition_by"]), "order_by": lst(params["order_by"]), "reverse": lst(params["reverse"]),
                        "ops_imply_window": z3.is_true(model.eval(iwf(ops.dom, ops.val), model_completion=True))}}

    for (tag, pbt) in (("[partition_by=1]", Ty_py(1)), ("[partition_by=list]", COLS)):
        reg.add(Contract(concretize=concretize_decision, key="ViewRepresentation.extend_parsed_:merge-decision" + tag, file=F, qualname="ViewRepresentation.extend_parsed_", cls="ViewRepresentation",
                         params={"self": NODE, "parsed_ops": OPS, "partition_by": pbt, "order_by": COLS, "reverse": COLS}, returns=NODE,
                         requires=requires, ensures=ens, entry_assume=region_entry, body_select=merge_region, names=("extend_parsed_:merge-decision" + tag,)))

    for (tag, pbt) in (("[partition_by=None]", Ty_py(None)), ("[partition_by=1]", Ty_py(1)), ("[partition_by=list]", COLS)):
        reg.add(Contract(key="ViewRepresentation.extend_parsed_" + tag, file=F, qualname="ViewRepresentation.extend_parsed_", cls="ViewRepresentation",
                         params={"self": NODE, "parsed_ops": OPS, "partition_by": pbt, "order_by": T.opt(COLS), "reverse": T.opt(COLS)}, returns=NODE,
                         requires=requires, ensures=ens, names=("extend_parsed_" + tag,)))


def Ty_py(v):
    from pyvc.values import Ty
    return Ty("py", (v,))


REGION_KEYS = ["ViewRepresentation.extend_parsed_:merge-decision" + t for t in ("[partition_by=1]", "[partition_by=list]")]
EXTEND_KEYS = ["ViewRepresentation.extend_parsed_" + t for t in ("[partition_by=None]", "[partition_by=1]", "[partition_by=list]")]
