#!/usr/bin/env python3
"""maintenance: merge cbc/proposed_findings_*.json into known_findings.json (never run by a check)."""
import glob, json
kf = json.load(open("known_findings.json"))
have = {f["key"] for f in kf["findings"]}
fixed_text = " ".join(kf.get("fixed", []))
for p in sorted(glob.glob("cbc/proposed_findings_*.json")):
    for f in json.load(open(p)):
        if f["key"] in have or f["key"] in fixed_text:
            continue  # already listed, or recorded as fixed (a fixed entry suppresses nothing and must not come back as a finding)
        have.add(f["key"])
        kf["findings"].append({k: f[k] for k in ("key", "property", "site", "what", "witness", "observed", "expected") if k in f})
kf["findings"].sort(key=lambda f: f["key"])
json.dump(kf, open("known_findings.json", "w"), indent=1)
print(len(kf["findings"]), "findings")
