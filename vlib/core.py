"""Common runner: property checks return a Report; main() writes evidence, prints VIOLATION /
KNOWN-FINDING lines and chooses the exit code.

Exit codes: 0 held (KNOWN-FINDING lines allowed) / 1 violation / 2 undecided (obligations discharged on the pinned tree can no longer be
generated: untranslatable body or wall limit; no VIOLATION line) / 3 checker error (no VIOLATION line).
"""
from __future__ import annotations

import hashlib
import importlib
import json
import os
import sys
import time
import traceback
from dataclasses import dataclass, field
from typing import Any, Dict, List, Optional

VERIF = os.path.dirname(os.path.dirname(os.path.abspath(__file__)))
REPO = os.environ.get("VERIF_REPO", "/repo")
EVIDENCE_DIR = os.environ.get("VERIF_EVIDENCE_DIR") or os.path.join(VERIF, "evidence")  # scratch runs (seeded mutants) must not touch the real evidence
REPLAY_DIR = os.environ.get("VERIF_REPLAY_DIR") or os.path.join(VERIF, "replays")
KNOWN_FINDINGS = os.path.join(VERIF, "known_findings.json")
LOCK_FILE = os.path.join(VERIF, "obligations.lock.json")


def jsonable(x: Any, depth: int = 0) -> Any:
    if depth > 8:
        return repr(x)[:200]
    if isinstance(x, (str, int, bool)) or x is None:
        return x
    if isinstance(x, float):
        if x != x or x in (float("inf"), float("-inf")):
            return repr(x)
        return x
    if isinstance(x, dict):
        return {str(k): jsonable(v, depth + 1) for k, v in x.items()}
    if isinstance(x, (list, tuple, set, frozenset)):
        return [jsonable(v, depth + 1) for v in x]
    return repr(x)[:400]


def file_sha(path: str) -> str:
    try:
        with open(path, "rb") as f:
            return hashlib.sha256(f.read()).hexdigest()[:16]
    except OSError:
        return "missing"


@dataclass
class Obligation:
    """One named proof obligation of one target (split into per-path VCs by the engine)."""

    name: str
    target: str
    status: str  # discharged | failed | undecided
    backend: str = ""
    seconds: float = 0.0
    n_vcs: int = 0
    detail: str = ""
    counterexample: Any = None
    assumptions: List[str] = field(default_factory=list)


@dataclass
class Violation:
    """A reportable failure. key identifies the failing obligation / case class for known-finding matching."""

    key: str
    what: str
    replay: Dict[str, Any]
    no_failing_input: bool = False


@dataclass
class Report:
    property_id: str
    level: str
    obligations: List[Obligation] = field(default_factory=list)
    violations: List[Violation] = field(default_factory=list)
    evaluations: int = 0
    nontrivial_keys: set = field(default_factory=set)
    rule: str = ""
    samples: List[Any] = field(default_factory=list)
    exhaustive: Optional[bool] = None
    trusted_base: List[str] = field(default_factory=list)
    assumptions: List[str] = field(default_factory=list)
    explanation: str = ""
    functions_under_contract: List[Dict[str, str]] = field(default_factory=list)
    extra: Dict[str, Any] = field(default_factory=dict)
    bounded_label: str = ""
    errors: List[str] = field(default_factory=list)

    def add_sample(self, s: Any, cap: int = 8) -> None:
        if len(self.samples) < cap:
            self.samples.append(jsonable(s))

    def case(self, key: Any, nontrivial: bool = True) -> None:
        self.evaluations += 1
        if nontrivial:
            self.nontrivial_keys.add(key if isinstance(key, (str, int, tuple)) else repr(key))

    def merge_bounded(self, other: "Report") -> None:
        self.evaluations += other.evaluations
        self.nontrivial_keys |= other.nontrivial_keys
        self.violations += other.violations
        for s in other.samples:
            self.add_sample(s, cap=12)
        self.errors += other.errors


def _bounded_child(modname: str, pid: str, level: str, tier: str, seed: int, q) -> None:
    try:
        mod = importlib.import_module(modname)
        sub = Report(property_id=pid, level=level)
        mod.bounded(sub, tier, seed)
        q.put(("ok", sub))
    except Exception:
        q.put(("error", traceback.format_exc()[-1500:]))


def run_bounded(rep: Report, modname: str, tier: str, seed: int, timeout_s: int) -> None:
    """run `<modname>.bounded(sub_report, tier, seed)` in a child process under a wall-clock limit and merge the
    sub-report into rep.  A time-out or crash is never a verdict: a time-out is recorded in
    rep.extra["bounded_timed_out"], a crash in rep.errors, and the bounded part then contributes nothing."""
    import multiprocessing as mp

    ctx = mp.get_context("fork")
    q = ctx.Queue()
    p = ctx.Process(target=_bounded_child, args=(modname, rep.property_id, rep.level, tier, seed, q))
    p.start()
    try:
        kind, payload = q.get(timeout=timeout_s)
    except Exception:
        kind, payload = "timeout", None
    if kind == "timeout":
        p.terminate()
        p.join(5)
        if p.is_alive():
            p.kill()
        rep.extra.setdefault("bounded_timed_out", []).append({"module": modname, "limit_s": timeout_s})
        return
    p.join(10)
    if kind == "error":
        rep.errors.append("bounded module %s crashed: %s" % (modname, payload))
        return
    rep.merge_bounded(payload)
    for attr in ("rule", "bounded_label", "explanation"):
        if getattr(payload, attr) and not getattr(rep, attr):
            setattr(rep, attr, getattr(payload, attr))
    rep.assumptions += payload.assumptions
    rep.trusted_base += payload.trusted_base
    rep.functions_under_contract += payload.functions_under_contract
    for k, v in payload.extra.items():
        rep.extra.setdefault(k, v)


def load_known_findings() -> Dict[str, Any]:
    try:
        with open(KNOWN_FINDINGS) as f:
            return json.load(f)
    except OSError:
        return {"findings": [], "fixed": []}


def findings_for(pid: str) -> List[Dict[str, Any]]:
    return [f for f in load_known_findings().get("findings", []) if f.get("property") == pid]


def write_replay(pid: str, name: str, payload: Dict[str, Any]) -> str:
    d = os.path.join(REPLAY_DIR, pid)
    os.makedirs(d, exist_ok=True)
    safe = "".join(ch if ch.isalnum() or ch in "-_." else "_" for ch in name)[:120]
    path = os.path.join(d, safe + ".json")
    with open(path, "w") as f:
        json.dump(jsonable(payload), f, indent=1, sort_keys=True)
    return path


def write_evidence(rep: Report, tier: str, seed: int, wall: float, n_viol: int, kf_hits: Dict[str, int]) -> str:
    os.makedirs(EVIDENCE_DIR, exist_ok=True)
    obl = rep.obligations
    under_finding = [o.name for o in obl if o.name in kf_hits and o.status != "discharged"]
    n_ob = len(obl) - len(under_finding)  # obligations inside a recorded known-finding region are listed separately
    n_dis = sum(1 for o in obl if o.status == "discharged")
    cov: Dict[str, Any] = {
        "evaluations": rep.evaluations,
        "distinct_nontrivial": len(rep.nontrivial_keys),
        "rule": rep.rule,
        "samples": rep.samples or [o.name for o in obl[:8]] or ["(no cases)"],
        "obligations": n_ob,
        "discharged": n_dis,
        "checker_cmd": "./check %s --tier %s" % (rep.property_id, tier),
        "trusted_base": sorted(set(rep.trusted_base)),
        "explanation": rep.explanation,
        "functions_under_contract": rep.functions_under_contract,
        "obligation_table": [
            {
                "name": o.name,
                "target": o.target,
                "status": o.status,
                "backend": o.backend,
                "solver_s": round(o.seconds, 3),
                "vcs": o.n_vcs,
                "detail": o.detail[:300],
            }
            for o in obl
        ],
        "undecided_obligations": [o.name for o in obl if o.status == "undecided" and o.name not in under_finding],
        "obligations_under_known_finding": under_finding,
        "failed_obligations": [o.name for o in obl if o.status == "failed"],
        "solver_seconds_total": round(sum(o.seconds for o in obl), 3),
        "bounded_label": rep.bounded_label,
        "known_finding_hits": kf_hits,
        "checker_errors": rep.errors[:10],
    }
    if rep.exhaustive is not None:
        cov["exhaustive"] = rep.exhaustive
    cov.update(rep.extra)
    ev = {
        "property_id": rep.property_id,
        "tier": tier,
        "seed": seed,
        "level": rep.level,
        "coverage": jsonable(cov),
        "assumptions": sorted(set(rep.assumptions)),
        "wall_s": round(wall, 2),
        "violations": n_viol,
    }
    path = os.path.join(EVIDENCE_DIR, rep.property_id + ".json")
    with open(path, "w") as f:
        json.dump(ev, f, indent=1)
    return path


def finish(rep: Report, tier: str, seed: int, t0: float) -> int:
    """Apply known findings, print lines, write evidence, return exit code."""
    findings = findings_for(rep.property_id)
    by_key = {f["key"]: f for f in findings}
    kf_hits: Dict[str, int] = {}
    new_viol: List[Violation] = []
    for v in rep.violations:
        if v.key in by_key:
            kf_hits[v.key] = kf_hits.get(v.key, 0) + 1
        else:
            new_viol.append(v)
    for k in kf_hits:
        print("KNOWN-FINDING: property=%s %s [%s] (%d failing case(s) this run)" % (rep.property_id, by_key[k]["what"], k, kf_hits[k]))
    stale = [k for k in by_key if k not in kf_hits and by_key[k].get("expect_each_run", True)]
    if stale:
        rep.extra["known_findings_not_reproduced_this_run"] = stale
    seen = set()
    for v in new_viol:
        if v.key in seen:
            continue
        seen.add(v.key)
        path = write_replay(rep.property_id, v.key, dict(v.replay, key=v.key, what=v.what, property=rep.property_id))
        tail = " no-failing-input-found" if v.no_failing_input else ""
        print("VIOLATION property=%s replay=%s%s" % (rep.property_id, path, tail))
        print("  what: " + v.what[:600])
    wall = time.time() - t0
    write_evidence(rep, tier, seed, wall, len(seen), kf_hits)
    if rep.errors and not seen:
        for e in rep.errors[:5]:
            print("CHECKER-ERROR: " + e[:500], file=sys.stderr)
        return 3
    und = rep.extra.get("undecided_locked_targets") or []
    if und and not seen:
        for u in und[:5]:
            print("UNDECIDED property=%s %s" % (rep.property_id, u[:400]))
        return 2
    return 1 if seen else 0


def main(argv: List[str]) -> int:
    import argparse

    ap = argparse.ArgumentParser()
    ap.add_argument("property")
    ap.add_argument("--tier", default=os.environ.get("VERIF_TIER", "quick"), choices=["quick", "thorough"])
    ap.add_argument("--replay", default=None)
    ap.add_argument("--relock", action="store_true", help="maintenance: record the obligations discharged now in obligations.lock.json")
    args = ap.parse_args(argv)
    seed = int(os.environ.get("VERIF_SEED", "0") or 0)
    os.environ["DATA_ALGEBRA_VERIF"] = "1"
    os.environ["VERIF_TIER_ACTIVE"] = args.tier
    if args.relock:
        os.environ["PYVC_RELOCK"] = "1"
    t0 = time.time()
    sys.path.insert(0, VERIF)
    try:
        mod = importlib.import_module("props." + args.property)
    except ModuleNotFoundError as e:
        print("no such property check: %s (%s)" % (args.property, e), file=sys.stderr)
        return 3
    if args.replay:
        with open(args.replay) as f:
            payload = json.load(f)
        if payload.get("obligation") and not (payload.get("bounded_witness") or {}).get("case"):
            # proof-side violation: replay the verifier's counterexample natively when there is one, else show the failed obligation and the solver output
            print("obligation:", payload.get("obligation"), "| target:", payload.get("target"))
            fn = str(payload.get("module") or "")
            if payload.get("case") is not None and fn.startswith("contracts.") and "." in fn:
                m, f_ = fn.rsplit(".", 1)
                out = getattr(importlib.import_module(m), f_)(payload["case"])
                print("native replay of the counterexample:", out.get("observed"))
                return 1 if out.get("fails") else 0
            print("no failing input was found by the verifier; solver output:")
            for x in (payload.get("solver_output") or [])[:6]:
                print("  ", x.get("path"), x.get("status"), str(x.get("detail"))[:300])
            return 1
        return int(mod.replay(payload))
    try:
        rep = mod.run(tier=args.tier, seed=seed)
        from props import _proofs
        _proofs.attach(rep, args.tier, seed)
    except Exception:
        traceback.print_exc()
        rep = Report(property_id=args.property, level="other", explanation="checker crashed")
        rep.errors.append(traceback.format_exc()[-1500:])
        write_evidence(rep, args.tier, seed, time.time() - t0, 0, {})
        return 3
    code = finish(rep, args.tier, seed, t0)
    if args.relock:
        from pyvc.check import write_lock
        if code == 0 and not rep.errors:
            write_lock(args.property, rep)
            print("lock written for %s: %d discharged obligations" % (args.property, sum(1 for o in rep.obligations if o.status == "discharged")))
        else:
            print("lock NOT written (exit %d)" % code)
    return code


if __name__ == "__main__":
    sys.exit(main(sys.argv[1:]))
