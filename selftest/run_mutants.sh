#!/bin/bash
# usage: selftest/run_mutants.sh <Cxx> [pattern]   -- runs ./check Cxx against every selftest/mutants/<pattern>*.diff
cd "$(dirname "$0")/.."
P=$1; PAT=${2:-$1}
for m in selftest/mutants/${PAT}*diff; do
  s=$(date +%s)
  R=""; case "$m" in *.rdiff) R="-R";; esac
  out=$(selftest/with_patch.sh $R $m -- ./check $P 2>&1); code=$?
  echo "=== $(basename $m) exit=$code $(( $(date +%s) - s ))s"
  echo "$out" | grep -E "VIOLATION|KNOWN|CHECKER|what:" | cut -c1-260 | head -5
done
