#!/bin/bash
# usage: selftest/with_patch.sh [-R] <patch.diff> -- <command...>
# Applies the patch to a scratch copy of /repo's working tree (outside /repo and /verif), runs the command with
# VERIF_REPO / PYTHONPATH pointing at the copy, removes the copy.  -R applies the patch reversed.
set -u
REV=""
if [ "$1" = "-R" ]; then REV="-R"; shift; fi
PATCH="$(readlink -f "$1")"; shift; shift
SCR="$(mktemp -d /tmp/verif-scratch-XXXXXX)"
trap 'rm -rf "$SCR"' EXIT
rsync -a --exclude .git --exclude build --exclude dist --exclude docs --exclude Examples --exclude '*.egg-info' /repo/ "$SCR/repo/"
( cd "$SCR/repo" && patch -p1 $REV --quiet < "$PATCH" ) || { echo "patch failed" >&2; exit 3; }
mkdir -p "$SCR/evidence" "$SCR/replays"
VERIF_EVIDENCE_DIR="$SCR/evidence" VERIF_REPLAY_DIR="$SCR/replays" VERIF_REPO="$SCR/repo" PYTHONPATH="$SCR/repo" "$@"
