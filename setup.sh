#!/bin/bash
# setup_cmd: build the overlay venv /verif/.venv offline (py3.12 venv on top of /venv's site-packages).
set -euo pipefail
cd "$(dirname "$0")"
export PIP_NO_INDEX=1
if [ -x .venv/bin/python ] && .venv/bin/python -c "import z3, cvc5, jsonschema, pandas, data_algebra" 2>/dev/null; then
  echo "setup: .venv already usable"; exit 0
fi
rm -rf .venv
/venv/bin/python -m venv .venv
SP=$(.venv/bin/python -c "import site; print(site.getsitepackages()[0])")
echo "import site; site.addsitedir('/venv/lib/python3.12/site-packages')" > "$SP/zz_overlay.pth"
.venv/bin/python -m pip install --quiet --no-index --find-links /opt/veriftools/wheels \
   z3-solver cvc5 jsonschema crosshair-tool deal icontract hypothesis
.venv/bin/python -c "import z3, cvc5, jsonschema, pandas, polars, data_algebra; print('setup ok', z3.get_version_string(), data_algebra.__file__)"
