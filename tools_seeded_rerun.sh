#!/bin/bash
# maintenance: re-run our checks against every stored seeded change (seeded/<id>/patch.diff); N parallel jobs
cd /verif
N=${1:-3}
ls -d seeded/*/ | while read d; do
  id=$(basename $d); P=$(echo $id | sed 's/.*-//')
  echo "$d $P $id"
done | xargs -P $N -L 1 bash -c './tools_seeded.sh $0 $1 $2 > /tmp/seeded_rerun_$2.log 2>&1; echo "== $2: $(grep -E "check_exit" /verif/seeded/$2/result.txt)"'
.venv/bin/python tools_seeded_meta.py
