#!/usr/bin/env python3
"""maintenance: write seeded/<id>/meta.json from the sub-agent's meta (meta.src.json) and our own confirmation (result.txt),
and print the catch matrix."""
import glob, json, os, re
rows = []
for d in sorted(glob.glob("seeded/*/")):
    sid = os.path.basename(d.rstrip("/"))
    try:
        src = json.load(open(d + "meta.src.json"))
    except Exception:
        src = {}
    res = open(d + "result.txt").read() if os.path.exists(d + "result.txt") else ""
    def g(k):
        m = re.search(r"%s=(\S+)" % k, res)
        return m.group(1) if m else None
    viol = [l for l in res.splitlines() if l.startswith("VIOLATION")]
    keys = []
    for l in viol:
        m = re.search(r"/([^/]+)\.json", l)
        if m:
            keys.append(m.group(1) + (" (no-failing-input-found)" if "no-failing-input-found" in l else ""))
    meta = {
        "id": sid,
        "property": src.get("property") or sid.split("-")[-1],
        "what_it_breaks": src.get("what_it_breaks"),
        "needs_to_manifest": src.get("needs_to_manifest"),
        "files_touched": src.get("files_touched"),
        "origin": "independent sub-agent given only the property text and a scratch worktree of /repo",
        "confirmed_by_us": {
            "patch_applies_to_current_repo": g("patch_applies"),
            "demo_exit_on_unchanged_tree": g("demo_pristine_exit"),
            "demo_exit_with_patch": g("demo_patched_exit"),
            "suite_baseline_tests_missing_with_patch": g("suite_baseline_missing"),
            "commands": ["tools_seeded.sh <dir> <property> <id> [suite]  (scratch copy of /repo, patch -p1, demo.py, ./check <property> --tier quick, optionally the full pytest suite)"],
        },
        "our_check": {"property_check_run": g("check"), "exit": g("check_exit"), "seconds": g("check_seconds"), "reported": keys[:6]},
        "caught": g("check_exit") == "1" and bool(viol),
    }
    json.dump(meta, open(d + "meta.json", "w"), indent=1)
    rows.append((sid, meta["property"], meta["caught"], g("check_exit"), "; ".join(keys[:2])[:110]))
for r in rows:
    print("%-8s %-4s caught=%-5s exit=%s %s" % r)
print("caught %d of %d" % (sum(1 for r in rows if r[2]), len(rows)))
