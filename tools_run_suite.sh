#!/bin/bash
# maintenance: run the repository's suite (guard off) and compare with /root/.vp/BASELINE.json stable_pass
cd /repo && env -u DATA_ALGEBRA_VERIF /venv/bin/python -m pytest -ra -q -p no:cacheprovider --timeout=900 --continue-on-collection-errors --junitxml=/tmp/suite.junit.xml > /tmp/suite.log 2>&1
/venv/bin/python - <<'PY'
import json, xml.etree.ElementTree as ET
base=set(json.load(open('/root/.vp/BASELINE.json'))['stable_pass'])
passed=set()
for tc in ET.parse('/tmp/suite.junit.xml').getroot().iter('testcase'):
    if not any(ch.tag in ('failure','error','skipped') for ch in tc):
        passed.add(tc.get('classname')+'::'+tc.get('name'))
missing=sorted(base-passed)
print('baseline', len(base), 'passed now', len(passed), 'baseline tests not passing now:', missing)
PY
