#!/bin/bash
# usage: tools_seeded_batch.sh <agent tag e.g. m1> [suite]
cd /verif
TAG=$1; SUITE=${2:-}
for d in /tmp/mutout-$TAG/C??; do
  P=$(basename $d)
  [ -f $d/patch.diff ] && [ -f $d/demo.py ] || continue
  [ -f /verif/seeded/$TAG-$P/result.txt ] && grep -q check_exit /verif/seeded/$TAG-$P/result.txt && [ -z "$SUITE" ] && continue
  ./tools_seeded.sh $d $P $TAG-$P $SUITE > /tmp/seeded_$TAG-$P.log 2>&1
  echo "== $TAG-$P: $(grep -E 'demo_pristine|demo_patched_exit|check_exit|suite_' /verif/seeded/$TAG-$P/result.txt | tr '\n' ' ')"
done
