"""Small helper API for sidecar contracts (formula builders over symbolic values)."""
from __future__ import annotations

from typing import Any, Callable, List

import z3

from .values import T, Ty, V, VDict, VList, VNone, VOpt, VPy, VScalar, VSet, VStr, VTuple, fresh_name, veq
from .contracts import Contract, Ctx, LoopCtx, Registry  # noqa: F401


def forall(sorts, body: Callable[..., Any], patterns: Callable[..., List[Any]] = None):
    if not isinstance(sorts, (list, tuple)):
        sorts = [sorts]
    xs = [z3.Const(fresh_name("q"), s) for s in sorts]
    b = body(*xs)
    if patterns is not None:
        return z3.ForAll(xs, b, patterns=patterns(*xs))
    return z3.ForAll(xs, b)


def exists(sorts, body: Callable[..., Any]):
    if not isinstance(sorts, (list, tuple)):
        sorts = [sorts]
    xs = [z3.Const(fresh_name("e"), s) for s in sorts]
    return z3.Exists(xs, body(*xs))


def implies(a, b):
    return z3.Implies(a, b)


def subset(a, b):
    return z3.IsSubset(a, b)


def empty(arr):
    return arr == z3.K(arr.sort().domain(), z3.BoolVal(False))


def disjoint(a, b):
    return empty(z3.SetIntersect(a, b))


def is_none(v: V):
    if isinstance(v, VNone):
        return z3.BoolVal(True)
    if isinstance(v, VOpt):
        return v.is_none
    return z3.BoolVal(False)


def TRUE():
    return z3.BoolVal(True)


def FALSE():
    return z3.BoolVal(False)
