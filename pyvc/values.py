"""Symbolic value model of pyvc (see DESIGN.md §3.2).

Scalars are single z3 terms; containers are small Python records of z3 terms:
  set   -> Array(T, Bool)
  list  -> (n: Int, arr: Array(Int, T))   with 0 <= n
  dict  -> (dom: Array(K, Bool), val: Array(K, T)[, pos: Array(K, Int)])
  obj   -> Int reference into per-(class, field) heap arrays
`None` for "str or None" values is the distinguished atom NONE (distinct from every string atom).
"""
from __future__ import annotations

import itertools
from dataclasses import dataclass, field
from typing import Any, Dict, List, Optional, Tuple

import z3

_counter = itertools.count()


def fresh_name(base: str) -> str:
    return "%s!%d" % (base, next(_counter))


class Sorts:
    """Sort universe; one instance per verification run so a finite-scope variant can be made."""

    def __init__(self, finite_atoms: int = 0):
        """finite_atoms > 0: refutation mode, the Atom sort is a finite enumeration (k atoms + NONE)."""
        self.finite = finite_atoms
        if finite_atoms:
            dt = z3.Datatype("Atom")
            for i in range(finite_atoms):
                dt.declare("A%d" % i)
            dt.declare("NONE_ATOM")
            self.Atom = dt.create()
            self.NONE = getattr(self.Atom, "NONE_ATOM")
            self.universe = [getattr(self.Atom, "A%d" % i) for i in range(finite_atoms)]
        else:
            self.Atom = z3.DeclareSort("Atom")
            self.NONE = z3.Const("NONE_ATOM", self.Atom)
            self.universe = None
        self.sorts: Dict[str, z3.SortRef] = {"Atom": self.Atom, "Int": z3.IntSort(), "Bool": z3.BoolSort()}
        self.str_consts: Dict[str, z3.ExprRef] = {}
        self.funcs: Dict[str, z3.FuncDeclRef] = {}

    def sort(self, name: str) -> z3.SortRef:
        if name not in self.sorts:
            self.sorts[name] = z3.DeclareSort(name)
        return self.sorts[name]

    def str_const(self, s: str) -> z3.ExprRef:
        if s not in self.str_consts:
            self.str_consts[s] = z3.Const("str_%d_%s" % (len(self.str_consts), "".join(ch if ch.isalnum() else "_" for ch in s)[:20]), self.Atom)
        return self.str_consts[s]

    def distinctness(self) -> List[z3.BoolRef]:
        cs = list(self.str_consts.values()) + [self.NONE]
        return [z3.Distinct(*cs)] if len(cs) > 1 else []

    def func(self, name: str, *sig) -> z3.FuncDeclRef:
        if name not in self.funcs:
            self.funcs[name] = z3.Function(name, *sig)
        return self.funcs[name]


# ---------------------------------------------------------------- types (declared in sidecars)


@dataclass(frozen=True)
class Ty:
    kind: str  # int bool atom oatom none opaque set list tuple dict odict obj opt any
    args: Tuple[Any, ...] = ()
    name: str = ""  # sort name for opaque, class name for obj

    def __repr__(self):
        if self.kind in ("opaque", "obj"):
            return "%s[%s]" % (self.kind, self.name)
        if self.args:
            return "%s[%s]" % (self.kind, ",".join(map(repr, self.args)))
        return self.kind


class T:
    int = Ty("int")
    bool = Ty("bool")
    atom = Ty("atom")  # a str (never None)
    oatom = Ty("oatom")  # str or None, None encoded as the NONE atom
    none = Ty("none")

    @staticmethod
    def opaque(sort_name: str) -> Ty:
        return Ty("opaque", (), sort_name)

    @staticmethod
    def set(elem: Ty = Ty("atom")) -> Ty:
        return Ty("set", (elem,))

    @staticmethod
    def list(elem: Ty = Ty("atom")) -> Ty:
        return Ty("list", (elem,))

    @staticmethod
    def dict(k: Ty, v: Ty) -> Ty:
        return Ty("dict", (k, v))

    @staticmethod
    def odict(k: Ty, v: Ty) -> Ty:
        return Ty("odict", (k, v))

    @staticmethod
    def obj(cls: str) -> Ty:
        return Ty("obj", (), cls)

    @staticmethod
    def opt(t: Ty) -> Ty:
        return Ty("opt", (t,))

    @staticmethod
    def tuple(*ts: Ty) -> Ty:
        return Ty("tuple", tuple(ts))


def scalar_sort(S: Sorts, ty: Ty) -> z3.SortRef:
    if ty.kind == "int":
        return z3.IntSort()
    if ty.kind == "bool":
        return z3.BoolSort()
    if ty.kind in ("atom", "oatom"):
        return S.Atom
    if ty.kind == "opaque":
        return S.sort(ty.name)
    if ty.kind == "obj":
        return z3.IntSort()
    if ty.kind == "set":
        return z3.ArraySort(scalar_sort(S, ty.args[0]), z3.BoolSort())  # a set as a dict VALUE (dict of sets): its characteristic array
    raise TypeError("not a scalar type: %r" % (ty,))


def is_scalar(ty: Ty) -> bool:
    return ty.kind in ("int", "bool", "atom", "oatom", "opaque", "obj")


# ---------------------------------------------------------------- values


class V:
    ty: Ty


@dataclass
class VNone(V):
    ty: Ty = T.none


@dataclass
class VScalar(V):
    """int / bool / atom / oatom / opaque / obj: one z3 term."""

    z: Any
    ty: Ty


@dataclass
class VSet(V):
    arr: Any
    ty: Ty


@dataclass
class VList(V):
    n: Any
    arr: Any
    ty: Ty
    is_tuple: bool = False
    distinct: bool = False  # known duplicate-free (python tuple of column names etc.)
    mem: Any = None  # known membership array (set view), when the list enumerates a set


@dataclass
class VDict(V):
    dom: Any
    val: Any
    ty: Ty
    pos: Any = None  # insertion stamp (odict only)
    n: Any = None  # next insertion stamp (odict only); NOT the number of keys


@dataclass
class VOpt(V):
    is_none: Any
    val: V
    ty: Ty


@dataclass
class VTuple(V):
    """python tuple/list of statically known length holding arbitrary values."""

    items: List[V]
    ty: Ty = Ty("ctuple")
    is_list: bool = False


@dataclass
class VStr(V):
    """a concrete python string known to the executor (constants, f-string skeleton pieces)."""

    s: str
    ty: Ty = Ty("cstr")


@dataclass
class VPy(V):
    """a concrete python object known to the executor (ints used as loop bounds, classes, modules)."""

    obj: Any
    ty: Ty = Ty("py")


def flatten(v: V) -> List[Any]:
    if isinstance(v, VScalar):
        return [v.z]
    if isinstance(v, VSet):
        return [v.arr]
    if isinstance(v, VList):
        return [v.n, v.arr]
    if isinstance(v, VDict):
        out = [v.dom, v.val]
        if v.pos is not None:
            out += [v.pos, v.n]
        return out
    if isinstance(v, VOpt):
        return [v.is_none] + flatten(v.val)
    if isinstance(v, VNone):
        return []
    raise TypeError("cannot flatten %r" % (v,))


def rebuild(ty_like: V, parts: List[Any]) -> V:
    if isinstance(ty_like, VScalar):
        return VScalar(parts[0], ty_like.ty)
    if isinstance(ty_like, VSet):
        return VSet(parts[0], ty_like.ty)
    if isinstance(ty_like, VList):
        return VList(parts[0], parts[1], ty_like.ty, ty_like.is_tuple, False)
    if isinstance(ty_like, VDict):
        if ty_like.pos is not None:
            return VDict(parts[0], parts[1], ty_like.ty, parts[2], parts[3])
        return VDict(parts[0], parts[1], ty_like.ty)
    if isinstance(ty_like, VOpt):
        return VOpt(parts[0], rebuild(ty_like.val, parts[1:]), ty_like.ty)
    if isinstance(ty_like, VNone):
        return VNone()
    raise TypeError("cannot rebuild %r" % (ty_like,))


def fresh(S: Sorts, ty: Ty, base: str, facts: List[Any]) -> V:
    """A fresh symbolic value of declared type ty; well-formedness facts are appended to `facts`."""
    k = ty.kind
    if k == "none":
        return VNone()
    if is_scalar(ty):
        z = z3.Const(fresh_name(base), scalar_sort(S, ty))
        if k == "atom":
            facts.append(z != S.NONE)
        if k == "obj":
            facts.append(z >= 0)
        return VScalar(z, ty)
    if k == "set":
        es = scalar_sort(S, ty.args[0])
        arr = z3.Const(fresh_name(base), z3.ArraySort(es, z3.BoolSort()))
        if ty.args[0].kind == "atom":
            facts.append(z3.Not(arr[S.NONE]))
        return VSet(arr, ty)
    if k == "list":
        es = scalar_sort(S, ty.args[0])
        n = z3.Int(fresh_name(base + "_n"))
        arr = z3.Const(fresh_name(base), z3.ArraySort(z3.IntSort(), es))
        facts.append(n >= 0)
        if ty.args[0].kind == "atom":
            i = z3.Int(fresh_name("i"))
            facts.append(z3.ForAll([i], z3.Implies(z3.And(0 <= i, i < n), arr[i] != S.NONE), patterns=[arr[i]]))
        return VList(n, arr, ty)
    if k in ("dict", "odict"):
        ks = scalar_sort(S, ty.args[0])
        vs = scalar_sort(S, ty.args[1])
        dom = z3.Const(fresh_name(base + "_dom"), z3.ArraySort(ks, z3.BoolSort()))
        val = z3.Const(fresh_name(base + "_val"), z3.ArraySort(ks, vs))
        if ty.args[0].kind == "atom":
            facts.append(z3.Not(dom[S.NONE]))
        if ty.args[1].kind == "atom":
            kk = z3.Const(fresh_name("k"), ks)
            facts.append(z3.ForAll([kk], z3.Implies(dom[kk], val[kk] != S.NONE), patterns=[val[kk]]))
        if k == "odict":
            pos = z3.Const(fresh_name(base + "_pos"), z3.ArraySort(ks, z3.IntSort()))
            n = z3.Int(fresh_name(base + "_n"))
            d = VDict(dom, val, ty, pos, n)
            facts.extend(odict_invariant(S, d))
            return d
        return VDict(dom, val, ty)
    if k == "opt":
        b = z3.Bool(fresh_name(base + "_isnone"))
        return VOpt(b, fresh(S, ty.args[0], base, facts), ty)
    raise TypeError("cannot make fresh value of type %r" % (ty,))


def odict_invariant(S: Sorts, d: VDict) -> List[Any]:
    """insertion stamps: pos is injective on the present keys and below the next stamp n
    (python's OrderedDict/dict order is the order of these stamps; removal leaves gaps)."""
    ks = d.dom.sort().domain()
    a = z3.Const("odict_a", ks)
    b = z3.Const("odict_b", ks)
    return [
        d.n >= 0,
        z3.ForAll([a], z3.Implies(d.dom[a], z3.And(0 <= d.pos[a], d.pos[a] < d.n))),
        z3.ForAll([a, b], z3.Implies(z3.And(d.dom[a], d.dom[b], d.pos[a] == d.pos[b]), a == b)),
    ]


def veq(a: V, b: V) -> Any:
    """python == on two symbolic values, as a z3 Bool (structural / extensional)."""
    if isinstance(a, VNone) and isinstance(b, VNone):
        return z3.BoolVal(True)
    if isinstance(a, VNone) or isinstance(b, VNone):
        other = b if isinstance(a, VNone) else a
        if isinstance(other, VOpt):
            return other.is_none
        if isinstance(other, VScalar) and other.ty.kind == "oatom":
            raise TypeError("compare oatom with None through sorts.NONE")
        return z3.BoolVal(False)
    if isinstance(a, VOpt) or isinstance(b, VOpt):
        if isinstance(a, VOpt) and isinstance(b, VOpt):
            return z3.Or(z3.And(a.is_none, b.is_none), z3.And(z3.Not(a.is_none), z3.Not(b.is_none), veq(a.val, b.val)))
        o, p = (a, b) if isinstance(a, VOpt) else (b, a)
        return z3.And(z3.Not(o.is_none), veq(o.val, p))
    if isinstance(a, VScalar) and isinstance(b, VScalar):
        if a.z.sort() != b.z.sort():
            return z3.BoolVal(False)
        return a.z == b.z
    if isinstance(a, VSet) and isinstance(b, VSet):
        return a.arr == b.arr
    if isinstance(a, VList) and isinstance(b, VList):
        i = z3.Int(fresh_name("i"))
        return z3.And(a.n == b.n, z3.ForAll([i], z3.Implies(z3.And(0 <= i, i < a.n), a.arr[i] == b.arr[i])))
    if isinstance(a, VDict) and isinstance(b, VDict):
        k = z3.Const(fresh_name("k"), a.dom.sort().domain())
        return z3.And(a.dom == b.dom, z3.ForAll([k], z3.Implies(a.dom[k], a.val[k] == b.val[k])))
    if isinstance(a, VTuple) and isinstance(b, VTuple):
        if len(a.items) != len(b.items):
            return z3.BoolVal(False)
        return z3.And(*[veq(x, y) for x, y in zip(a.items, b.items)]) if a.items else z3.BoolVal(True)
    if isinstance(a, VStr) and isinstance(b, VStr):
        return z3.BoolVal(a.s == b.s)
    if isinstance(a, VPy) and isinstance(b, VPy):
        return z3.BoolVal(a.obj == b.obj)
    raise TypeError("veq: unsupported pair %s / %s" % (type(a).__name__, type(b).__name__))
