"""Call semantics: python builtins, container methods, and modular application of contracts."""
from __future__ import annotations

import ast
from typing import Any, Dict, List, Tuple

import z3

from .engine import Engine, Raised, State, Unsupported, veq_safe, MUTATING
from .values import (
    T, Ty, V, VDict, VList, VNone, VOpt, VPy, VScalar, VSet, VStr, VTuple,
    fresh, fresh_name, is_scalar, scalar_sort,
)

ITERABLE_NAMES = {"Iterable", "collections.abc.Iterable"}


def call(eng: Engine, e: ast.Call, st: State):
    # ---- quantifier-like builtins over generators: all(...), any(...), numpy.all([...])
    fname = eng.dotted(e.func)
    if fname in ("all", "any", "numpy.all", "numpy.any", "np.all", "np.any") and len(e.args) == 1 and isinstance(e.args[0], (ast.GeneratorExp, ast.ListComp)):
        return quantified(eng, e, st, fname.endswith("all"))
    if fname == "isinstance" and len(e.args) == 2:
        return do_isinstance(eng, e, st)
    if fname == "type" and len(e.args) == 1:
        out = []
        for (s1, v) in eng.ev(e.args[0], st):
            out.append((s1, VPy(("typeof", v))))
        return out
    # ---- evaluate callee
    out = []
    for (s1, fv) in eng.ev(e.func, st):
        if isinstance(fv, Raised):
            out.append((s1, fv))
            continue
        for (s2, args) in eng.ev_list([a for a in e.args], s1):
            bad = next((x for x in args if isinstance(x, Raised)), None)
            if bad:
                out.append((s2, bad))
                continue
            if any(isinstance(a, ast.Starred) for a in e.args):
                raise Unsupported("*args at call site", e)
            kwn = [k.arg for k in e.keywords]
            if any(k is None for k in kwn):
                raise Unsupported("**kwargs at call site", e)
            for (s3, kvals) in eng.ev_list([k.value for k in e.keywords], s2):
                bad = next((x for x in kvals if isinstance(x, Raised)), None)
                if bad:
                    out.append((s3, bad))
                    continue
                out.extend(dispatch(eng, e, s3, fv, args, dict(zip(kwn, kvals))))
    return out


def quantified(eng: Engine, e: ast.Call, st: State, is_all: bool):
    gen = e.args[0]
    out = []
    for (s1, n, elem_at, info, g) in eng.comp_iter(gen, st):
        if isinstance(n, Raised):
            out.append((s1, n))
            continue
        if isinstance(n, str) and n == "concrete":
            conds = []
            for it in elem_at:
                cond, vals, extra, sc = eng.comp_body(g, [gen.elt], it, s1, e)
                eng.comp_obligations(s1, e, lambda f: f)
                for f in extra:
                    s1.assume(f)
                t = eng.truth(vals[0], sc, e)
                conds.append(z3.Implies(eng.zbool(cond), eng.zbool(t)) if is_all else z3.And(eng.zbool(cond), eng.zbool(t)))
            r = (z3.And(*conds) if conds else z3.BoolVal(True)) if is_all else (z3.Or(*conds) if conds else z3.BoolVal(False))
            out.append((s1, VScalar(r, T.bool)))
            continue
        i = z3.Int(fresh_name("qi"))
        cond, vals, extra, sc = eng.comp_body(g, [gen.elt], elem_at(i), s1, e)
        eng.comp_obligations(s1, e, lambda f: z3.ForAll([i], z3.Implies(z3.And(0 <= i, i < n), f)))
        guard = z3.And(0 <= i, i < n)
        for f in extra:
            s1.assume(z3.ForAll([i], z3.Implies(guard, f)))
        t = eng.zbool(eng.truth(vals[0], sc, e))
        c = eng.zbool(cond)
        if is_all:
            r = z3.ForAll([i], z3.Implies(z3.And(guard, c), t))
        else:
            r = z3.Exists([i], z3.And(guard, c, t))
        out.append((s1, VScalar(r, T.bool)))
    return out


def type_test(eng: Engine, st: State, v: V, tname: str, node):
    """isinstance(v, <tname>) decided from the declared/static type (DESIGN §3.6-4); z3 Bool for objects."""
    tname = tname.split(".")[-1]
    if isinstance(v, VScalar) and v.ty.kind == "opaque":
        r = eng.registry.globals.get(("isinstance", v.ty.name, tname))
        if r is not None:
            return r(eng, st, v) if callable(r) else r
    if tname in ("NoneType",):
        return isinstance(v, VNone)
    if isinstance(v, VOpt):
        raise Unsupported("isinstance on optional value", node)
    if isinstance(v, VScalar) and v.ty.kind == "obj":
        if tname in eng.classes:
            subs = eng.subclasses(tname)
            static = v.ty.name
            if all(not eng.is_subclass(c, tname) and not eng.is_subclass(tname, c) for c in [static]):
                return False
            if eng.is_subclass(static, tname):
                return True
            return z3.Or(*[eng.tag_of(st, v) == eng.classes[c].tag for c in subs])
        if tname in ("str", "int", "bool", "float", "list", "tuple", "dict", "set", "Iterable", "Number", "List", "Dict"):
            return False
        raise Unsupported("isinstance(obj, %s)" % tname, node)
    if tname == "str":
        if isinstance(v, VStr):
            return True
        if isinstance(v, VScalar) and v.ty.kind == "atom":
            return True
        if isinstance(v, VScalar) and v.ty.kind == "oatom":
            return v.z != eng.S.NONE
        return False
    if tname in ("list", "List"):
        return (isinstance(v, VList) and not v.is_tuple) or (isinstance(v, VTuple) and v.is_list)
    if tname == "tuple":
        return (isinstance(v, VList) and v.is_tuple) or (isinstance(v, VTuple) and not v.is_list)
    if tname in ("dict", "Dict"):
        return isinstance(v, VDict) or (isinstance(v, VPy) and isinstance(v.obj, tuple) and v.obj[0] == "dictlit")
    if tname == "set":
        return isinstance(v, VSet)
    if tname == "Iterable":
        if isinstance(v, (VList, VSet, VDict, VTuple, VStr)):
            return True
        if isinstance(v, VScalar) and v.ty.kind in ("atom",):
            return True
        return False
    if tname == "bool":
        return (isinstance(v, VScalar) and v.ty.kind == "bool") or (isinstance(v, VPy) and isinstance(v.obj, bool))
    if tname in ("int", "Number"):
        if isinstance(v, VPy):
            return isinstance(v.obj, int) if tname == "Number" else (isinstance(v.obj, int))
        return isinstance(v, VScalar) and v.ty.kind in (("int", "bool") if tname == "Number" else ("int",))
    if isinstance(v, VScalar) and v.ty.kind == "opaque":
        r = eng.registry.globals.get(("isinstance", v.ty.name, tname))
        if r is not None:
            return r(eng, st, v) if callable(r) else r
    if tname in eng.classes:
        return False
    raise Unsupported("isinstance(%s, %s)" % (type(v).__name__, tname), node)


def do_isinstance(eng: Engine, e: ast.Call, st: State):
    out = []
    tnode = e.args[1]
    tnodes = tnode.elts if isinstance(tnode, ast.Tuple) else [tnode]
    names = []
    for t in tnodes:
        if isinstance(t, ast.Call) and eng.dotted(t.func) == "type" and isinstance(t.args[0], ast.Constant) and t.args[0].value is None:
            names.append("NoneType")
            continue
        d = eng.dotted(t)
        if d is None:
            raise Unsupported("isinstance type expression", e)
        names.append(d)
    for (s1, v) in eng.ev(e.args[0], st):
        if isinstance(v, Raised):
            out.append((s1, v))
            continue
        rs = [type_test(eng, s1, v, n, e) for n in names]
        if any(r is True for r in rs):
            out.append((s1, VPy(True)))
        elif all(r is False for r in rs):
            out.append((s1, VPy(False)))
        else:
            out.append((s1, VScalar(z3.Or(*[eng.zbool(r) for r in rs]), T.bool)))
    return out


def dispatch(eng: Engine, e: ast.Call, st: State, fv: V, args: List[V], kwargs: Dict[str, V]):
    from .contracts import apply_contract

    if isinstance(fv, VPy) and isinstance(fv.obj, tuple):
        kind = fv.obj[0]
        if kind == "global":
            name = fv.obj[1]
            if name in eng.classes and ("%s.__init__" % name) in eng.registry.contracts:
                return apply_contract(eng, st, eng.registry.contracts["%s.__init__" % name], args, kwargs, e)
            c = eng.registry.contracts.get(name)
            if c is None:
                c = eng.registry.contracts.get(name.split(".")[-1]) if "." in name else None
            if c is not None:
                return apply_contract(eng, st, c, args, kwargs, e)
            return builtin(eng, e, st, name, args, kwargs)
        if kind == "boundmethod":
            recv, mname = fv.obj[1], fv.obj[2]
            return method(eng, e, st, recv, mname, args, kwargs)
        if kind == "localdef":
            raise Unsupported("call of nested function %s" % fv.obj[1].name, e)
    raise Unsupported("call of %r" % (fv,), e)


def builtin(eng: Engine, e, st: State, name: str, args: List[V], kwargs):
    S = eng.S
    if name == "len" and len(args) == 1:
        v = args[0]
        if isinstance(v, VTuple):
            return [(st, VPy(len(v.items)))]
        if isinstance(v, VStr):
            return [(st, VPy(len(v.s)))]
        if isinstance(v, VList):
            return [(st, VScalar(v.n, T.int))]
        if isinstance(v, (VSet, VDict)) or (isinstance(v, VScalar) and v.ty.kind == "obj"):
            arr = eng.set_of(v, st, e).arr
            for f in eng.card_facts(arr):
                st.assume(f)
            return [(st, VScalar(eng.card(arr), T.int))]
        if isinstance(v, VPy) and isinstance(v.obj, tuple) and v.obj[0] == "dictlit":
            return [(st, VPy(len(v.obj[1])))]
        if isinstance(v, VScalar) and v.ty.kind == "atom":
            # len of a string: an uninterpreted non-negative integer
            n = S.func("str_len", S.Atom, z3.IntSort())(v.z)
            st.assume(n >= 0)
            return [(st, VScalar(n, T.int))]
        raise Unsupported("len of %s" % type(v).__name__, e)
    if name == "set":
        if not args:
            return [(st, VPy(("emptyset",)))]
        return [(st, eng.set_of(args[0], st, e))]
    if name in ("list", "tuple"):
        if not args:
            return [(st, VTuple([], is_list=(name == "list")))]
        v = args[0]
        if isinstance(v, VTuple):
            return [(st, VTuple(list(v.items), is_list=(name == "list")))]
        if isinstance(v, VPy) and isinstance(v.obj, tuple) and v.obj[0] == "values":
            d = v.obj[1]
            kl = eng.list_of(d, st, e)
            arr = z3.Const(fresh_name("vals"), z3.ArraySort(z3.IntSort(), d.val.sort().range()))
            i = z3.Int(fresh_name("i"))
            st.assume(z3.ForAll([i], z3.Implies(z3.And(0 <= i, i < kl.n), arr[i] == d.val[kl.arr[i]]), patterns=[arr[i]]))
            return [(st, VList(kl.n, arr, T.list(d.ty.args[1]), is_tuple=(name == "tuple")))]
        if isinstance(v, VPy) and isinstance(v.obj, tuple) and v.obj[0] == "items":
            raise Unsupported("list(dict.items())", e)
        l = eng.list_of(v, st, e)
        return [(st, VList(l.n, l.arr, l.ty, is_tuple=(name == "tuple"), distinct=l.distinct))]
    if name in ("dict", "collections.OrderedDict", "OrderedDict"):
        if not args and not kwargs:
            return [(st, VPy(("dictlit", [])))]
        if args and isinstance(args[0], VDict):
            return [(st, args[0])]
        raise Unsupported("dict(...) with arguments", e)
    if name == "str" and len(args) == 1:
        v = args[0]
        if isinstance(v, VStr):
            return [(st, v)]
        if isinstance(v, VPy) and isinstance(v.obj, (int, bool)):
            return [(st, VStr(str(v.obj)))]
        if isinstance(v, VScalar):
            if v.ty.kind == "atom":
                return [(st, v)]
            f = S.func("str_of_" + str(v.z.sort()), v.z.sort(), S.Atom)
            r = f(v.z)
            st.assume(r != S.NONE)
            if v.ty.kind == "int":
                inv = S.func("int_of_str", S.Atom, z3.IntSort())
                x = z3.Int(fresh_name("sx"))
                st.assume(z3.ForAll([x], inv(f(x)) == x, patterns=[f(x)]))
                eng.registry.note("str(int) is injective")
            return [(st, VScalar(r, T.atom))]
        return [(st, VScalar(z3.Const(fresh_name("strof"), S.Atom), T.atom))]
    if name in ("min", "max") and len(args) == 2:
        a = eng.coerce(args[0], T.int, st, e).z
        b = eng.coerce(args[1], T.int, st, e).z
        return [(st, VScalar(z3.If(a <= b, a, b) if name == "min" else z3.If(a >= b, a, b), T.int))]
    if name in ("numpy.all", "all", "numpy.any", "any") and len(args) == 1 and isinstance(args[0], VTuple):
        ts = [eng.zbool(eng.truth(x, st, e)) for x in args[0].items]
        if name.endswith("all"):
            return [(st, VScalar(z3.And(*ts) if ts else z3.BoolVal(True), T.bool))]
        return [(st, VScalar(z3.Or(*ts) if ts else z3.BoolVal(False), T.bool))]
    if name == "copy.copy" and len(args) == 1 and isinstance(args[0], VScalar) and args[0].ty.kind == "obj":
        src = args[0]
        new = eng.alloc(st, src.ty.name)
        todo, seen = [src.ty.name], set()
        while todo:
            cn = todo.pop()
            if cn in seen or cn not in eng.classes:
                continue
            seen.add(cn)
            for fname in eng.classes[cn].fields:
                eng.write_field(st, new, fname, eng.read_field(st, src, fname), e)
            todo.extend(eng.classes[cn].bases)
        eng.registry.note("copy.copy(obj): a new object with the same field values (shallow copy)")
        return [(st, new)]
    if name == "range" and len(args) == 1:
        if isinstance(args[0], VPy):
            return [(st, VPy(range(args[0].obj)))]
        return [(st, VPy(("range", eng.coerce(args[0], T.int, st, e))))]
    if name == "id" and len(args) == 1 and isinstance(args[0], VScalar) and args[0].ty.kind == "obj":
        return [(st, VScalar(args[0].z, T.int))]
    if name == "iter" and len(args) == 1:
        return [(st, args[0])]
    if name in ("ValueError", "KeyError", "TypeError", "AssertionError", "Exception"):
        return [(st, VPy(("exception", name)))]
    c = eng.registry.contracts.get(name)
    if c is not None:
        from .contracts import apply_contract

        return apply_contract(eng, st, c, args, kwargs, e)
    raise Unsupported("call of unknown function %s" % name, e)


def empty_like(eng: Engine, other: V, node):
    if isinstance(other, VSet):
        return VSet(z3.K(other.arr.sort().domain(), z3.BoolVal(False)), other.ty)
    raise Unsupported("cannot type an empty set literal from %s" % type(other).__name__, node)


def method(eng: Engine, e: ast.Call, st: State, recv: V, m: str, args: List[V], kwargs):
    from .contracts import apply_contract

    S = eng.S
    lv = e.func.value if isinstance(e.func, ast.Attribute) else None
    if isinstance(recv, VOpt):
        # method call on an optional value: None has no such method (AttributeError), otherwise the wrapped value
        t, f = eng.branch(st, recv.is_none, e)
        out = []
        if t is not None:
            out.append((t, Raised("AttributeError")))
        if f is not None:
            out.extend(method(eng, e, f, recv.val, m, args, kwargs))
        return out
    # ---- user objects: contract of the method
    if isinstance(recv, VScalar) and recv.ty.kind == "obj":
        c = eng.registry.method_contract(eng, recv.ty.name, m)
        if c is None:
            c = eng.registry.method_contract(eng, recv.ty.name, m, nargs=len(args))
        if c is None:
            raise Unsupported("no contract for method %s.%s" % (recv.ty.name, m), e)
        return apply_contract(eng, st, c, args, kwargs, e, self_obj=recv)
    if isinstance(recv, VScalar) and recv.ty.kind == "opaque":
        c = eng.registry.opaque_methods.get((recv.ty.name, m))
        if c is None:
            raise Unsupported("no assumed contract for %s.%s" % (recv.ty.name, m), e)
        res = apply_contract(eng, st, c, args, kwargs, e, self_obj=recv)
        outs = getattr(c, "out_params", None)
        if not outs:
            return res
        # out-parameters: the callee mutates a container argument in place; write the new value back to the argument's l-value
        names = [n for n in c.params if n != "self"]
        final = []
        for (s1, v) in res:
            if isinstance(v, Raised):
                final.append((s1, v))
                continue
            argmap = dict(zip(names, args))
            argmap.update(kwargs)
            argmap["self"] = recv
            cur = [(s1, None)]
            for pname, fn in outs.items():
                node = e.args[names.index(pname)] if names.index(pname) < len(e.args) else next(k.value for k in e.keywords if k.arg == pname)
                nxt = []
                for (s2, o) in cur:
                    nv = fn(eng, s2, argmap)
                    nxt.extend(eng.store_back(node, nv, s2, e))
                cur = nxt
            final.extend([(s2, v) for (s2, o) in cur])
        return final
    if isinstance(recv, VPy) and isinstance(recv.obj, tuple) and recv.obj[0] == "emptyset":
        if m in ("union", "update") and args:
            base = empty_like(eng, eng.set_of(args[0], st, e), e)
            return method(eng, e, st, base, m, args, kwargs)
        raise Unsupported("method %s on untyped empty set" % m, e)
    if isinstance(recv, VPy) and isinstance(recv.obj, tuple) and recv.obj[0] == "dictlit":
        if m == "items":
            return [(st, VTuple([VTuple([k, v]) for (k, v) in recv.obj[1]], is_list=True))]
        if m == "keys":
            return [(st, VTuple([k for (k, v) in recv.obj[1]], is_list=True))]
        if m == "values":
            return [(st, VTuple([v for (k, v) in recv.obj[1]], is_list=True))]
        raise Unsupported("method %s on dict literal" % m, e)
    if isinstance(recv, VSet):
        if m in ("union", "intersection", "difference"):
            arr = recv.arr
            f = {"union": z3.SetUnion, "intersection": z3.SetIntersect, "difference": z3.SetDifference}[m]
            for a in args:
                arr = f(arr, eng.set_of(a, st, e).arr)
            return [(st, VSet(arr, recv.ty))]
        if m == "copy":
            return [(st, VSet(recv.arr, recv.ty))]
        if m == "issubset":
            return [(st, VScalar(z3.IsSubset(recv.arr, eng.set_of(args[0], st, e).arr), T.bool))]
        if m == "add":
            nv = VSet(z3.Store(recv.arr, eng.as_atom(args[0], st, e), True), recv.ty)
            return [(s, VNone()) if o is None else (s, o[1]) for (s, o) in eng.store_back(lv, nv, st, e)]
        if m in ("discard", "remove"):
            k = eng.as_atom(args[0], st, e)
            if m == "remove":
                t, f = eng.branch(st, recv.arr[k], e)
                out = []
                if t is not None:
                    nv = VSet(z3.Store(recv.arr, k, False), recv.ty)
                    out += [(s, VNone()) for (s, o) in eng.store_back(lv, nv, t, e)]
                if f is not None:
                    out.append((f, Raised("KeyError")))
                return out
            nv = VSet(z3.Store(recv.arr, k, False), recv.ty)
            return [(s, VNone()) for (s, o) in eng.store_back(lv, nv, st, e)]
        if m == "update":
            arr = recv.arr
            for a in args:
                arr = z3.SetUnion(arr, eng.set_of(a, st, e).arr)
            return [(s, VNone()) for (s, o) in eng.store_back(lv, VSet(arr, recv.ty), st, e)]
        raise Unsupported("set method %s" % m, e)
    if isinstance(recv, VDict):
        if m == "keys":
            v = VSet(recv.dom, T.set(recv.ty.args[0]))
            v.src = recv  # keeps insertion order reachable for odicts
            return [(st, v if recv.pos is None else recv)]
        if m == "values":
            return [(st, VPy(("values", recv)))]
        if m == "items":
            return [(st, VPy(("items", recv)))]
        if m == "copy":
            return [(st, VDict(recv.dom, recv.val, recv.ty, recv.pos, recv.n))]
        if m == "update":
            o = args[0]
            if isinstance(o, VPy) and isinstance(o.obj, tuple) and o.obj[0] == "dictlit":
                nd = recv
                for (k, v) in o.obj[1]:
                    nd = eng.dict_store(nd, eng.as_atom(k, st, e), v, st, e)
                return [(s, VNone()) for (s, oo) in eng.store_back(lv, nd, st, e)]
            if not isinstance(o, VDict):
                raise Unsupported("dict.update(%s)" % type(o).__name__, e)
            if recv.pos is not None:
                raise Unsupported("ordered dict.update", e)
            ks = recv.dom.sort().domain()
            k = z3.Const(fresh_name("uk"), ks)
            val = z3.Const(fresh_name("upd_val"), recv.val.sort())
            st.assume(z3.ForAll([k], val[k] == z3.If(o.dom[k], o.val[k], recv.val[k]), patterns=[val[k]]))
            nd = VDict(z3.SetUnion(recv.dom, o.dom), val, recv.ty)
            return [(s, VNone()) for (s, oo) in eng.store_back(lv, nd, st, e)]
        if m == "pop":
            k = eng.as_atom(args[0], st, e)
            t, f = eng.branch(st, recv.dom[k], e)
            out = []
            if t is not None:
                nd = eng.dict_remove(recv, k, t)
                for (s, oo) in eng.store_back(lv, nd, t, e):
                    out.append((s, VScalar(recv.val[k], recv.ty.args[1])))
            if f is not None:
                if len(args) > 1:
                    out.append((f, args[1]))
                else:
                    out.append((f, Raised("KeyError")))
            return out
        if m == "get":
            k = eng.as_atom(args[0], st, e)
            t, f = eng.branch(st, recv.dom[k], e)
            out = []
            if t is not None:
                out.append((t, VScalar(recv.val[k], recv.ty.args[1])))
            if f is not None:
                out.append((f, args[1] if len(args) > 1 else VNone()))
            return out
        raise Unsupported("dict method %s" % m, e)
    if isinstance(recv, (VList, VTuple)):
        if m == "copy":
            return [(st, recv)] if isinstance(recv, VList) else [(st, VTuple(list(recv.items), is_list=recv.is_list))]
        if m == "append":
            if isinstance(recv, VTuple):
                nv = VTuple(recv.items + [args[0]], is_list=True)
                return [(s, VNone()) for (s, o) in eng.store_back(lv, nv, st, e)]
            x = eng.coerce(args[0], recv.ty.args[0], st, e).z
            nv = VList(recv.n + 1, z3.Store(recv.arr, recv.n, x), recv.ty)
            return [(s, VNone()) for (s, o) in eng.store_back(lv, nv, st, e)]
        raise Unsupported("list method %s" % m, e)
    if isinstance(recv, VStr):
        if m == "join":
            # sep.join(list of strings): an uninterpreted function of (separator, the list); every call is recorded for the postconditions
            S = eng.S
            lst = eng.list_of(args[0], st, e)
            fn = S.func("str_join", S.Atom, z3.ArraySort(z3.IntSort(), S.Atom), z3.IntSort(), S.Atom)
            r = fn(S.str_const(recv.s), lst.arr, lst.n)
            st.assume(r != S.NONE)
            st.ghost["join_calls"] = list(st.ghost.get("join_calls", [])) + [(recv.s, lst)]
            eng.registry.note("sep.join(list) treated as an uninterpreted function of the separator and the list of pieces")
            return [(st, VScalar(r, T.atom))]
        if m == "__repr__":
            return [(st, VStr(repr(recv.s)))]
    if isinstance(recv, VScalar) and recv.ty.kind == "atom" and m == "join":
        # symbolic separator: same uninterpreted function as for a literal separator; calls recorded separately (join_calls holds literal separators)
        S = eng.S
        lst = eng.list_of(args[0], st, e)
        fn = S.func("str_join", S.Atom, z3.ArraySort(z3.IntSort(), S.Atom), z3.IntSort(), S.Atom)
        r = fn(recv.z, lst.arr, lst.n)
        st.assume(r != S.NONE)
        st.ghost["join_calls_sym"] = list(st.ghost.get("join_calls_sym", [])) + [(recv.z, lst)]
        eng.registry.note("sep.join(list) treated as an uninterpreted function of the separator and the list of pieces")
        return [(st, VScalar(r, T.atom))]
    if isinstance(recv, VScalar) and recv.ty.kind == "int" and m == "__repr__":
        return builtin(eng, e, st, "str", [recv], {})
    if isinstance(recv, VScalar) and recv.ty.kind in ("atom", "oatom") and m in ("__eq__",):
        r = veq_safe(eng, recv, args[0], st, e)
        return [(st, eng.vbool(r))]
    if isinstance(recv, VPy) and isinstance(recv.obj, tuple) and recv.obj[0] == "global":
        name = recv.obj[1] + "." + m
        c = eng.registry.contracts.get(name)
        if c is not None:
            return apply_contract(eng, st, c, args, kwargs, e)
        return builtin(eng, e, st, name, args, kwargs)
    raise Unsupported("method %s on %s" % (m, type(recv).__name__), e)
