"""Contracts, registry, verification driver and VC discharge for pyvc."""
from __future__ import annotations

import ast
import os
import subprocess
import tempfile
import time
from dataclasses import dataclass, field
from typing import Any, Callable, Dict, List, Optional, Tuple

import z3

from .engine import ClassDecl, Engine, HeapField, Pending, Raised, State, Unsupported
from .values import (
    Sorts, T, Ty, V, VDict, VList, VNone, VOpt, VPy, VScalar, VSet, VStr, VTuple,
    flatten, fresh, fresh_name, is_scalar, rebuild, scalar_sort, veq,
)

REPO = os.environ.get("VERIF_REPO", "/repo")


class Ctx:
    """what a contract clause sees: parameters, result/exception, old and new heap."""

    def __init__(self, eng: Engine, st: State, params: Dict[str, V], old_heap, result=None, raised: Optional[str] = None, old_ghost=None):
        self.eng = eng
        self.S = eng.S
        self.st = st
        self.params = params
        self.old_heap = old_heap
        self.result = result
        self.raised = raised
        self.returned = raised is None
        self.old_ghost = old_ghost or {}

    def __getattr__(self, name):
        p = self.__dict__.get("params", {})
        if name in p:
            return p[name]
        raise AttributeError(name)

    def field(self, obj: VScalar, name: str) -> V:
        return self.eng.read_field(self.st, obj, name)

    def old_field(self, obj: VScalar, name: str) -> V:
        key = self.eng.field_owner(obj.ty.name, name)
        if key not in self.old_heap:
            raise RuntimeError("heap field %s.%s missing from the entry snapshot" % key)
        hf = self.old_heap[key]
        return rebuild(hf.template, [z3.simplify(z3.Select(p, obj.z)) for p in hf.parts])

    def heap_parts(self, cls: str, name: str, old=False):
        key = self.eng.field_owner(cls, name)
        if old:
            return self.old_heap[key].parts
        return self.eng.heap_field(self.st, cls, name).parts

    def mem(self, lst: VList):
        return self.eng.list_mem(lst, self.st)

    def set_of(self, v: V) -> VSet:
        return self.eng.set_of(v, self.st)

    def list_of(self, v: V) -> VList:
        return self.eng.list_of(v, self.st)


class LoopCtx(Ctx):
    """context of a loop invariant: i = number of completed iterations, n = total, pre = state at loop entry."""

    def __init__(self, eng, st, i, n, seqinfo, pre_state, pre_heap):
        cur = eng.current
        super().__init__(eng, st, getattr(eng, "current_params", {}), getattr(eng, "entry_heap", {}))
        self.i = i
        self.n = n
        self.seq = seqinfo
        self.pre = pre_state
        self.pre_heap = pre_heap

    def var(self, name: str) -> V:
        return self.st.env[name]

    def pre_var(self, name: str) -> V:
        return self.pre.env[name]

    def pre_field(self, obj: VScalar, name: str) -> V:
        key = self.eng.field_owner(obj.ty.name, name)
        hf = self.pre_heap[key]
        return rebuild(hf.template, [z3.simplify(z3.Select(p, obj.z)) for p in hf.parts])


@dataclass
class Contract:
    key: str
    file: Optional[str] = None  # repo-relative path; None for assumed externals
    qualname: Optional[str] = None
    params: Dict[str, Ty] = field(default_factory=dict)
    returns: Optional[Ty] = None
    requires: Optional[Callable[[Ctx], List[Tuple[str, Any]]]] = None
    ensures: Optional[Callable[[Ctx], List[Tuple[str, Any]]]] = None
    raises: Optional[Callable[[Ctx], Dict[str, Any]]] = None  # exc name -> iff-condition in the pre-state
    modifies: Tuple[Tuple[str, str], ...] = ()
    loops: Dict[int, Callable[[LoopCtx], List[Tuple[str, Any]]]] = field(default_factory=dict)
    cls: Optional[str] = None  # class of self for methods
    is_init: bool = False
    assumed: bool = False  # True: external / trusted, never verified
    apply: Optional[Callable] = None  # custom call-site semantics (eng, st, argmap, node) -> [(st, V|Raised)]
    names: Tuple[str, ...] = ()  # call names this contract answers to (function or method name)
    node: Any = None
    note: str = ""
    ghost_params: Dict[str, Ty] = field(default_factory=dict)
    entry_assume: Optional[Callable[[Ctx], List[Any]]] = None
    may_raise: Tuple[str, ...] = ()  # exceptions the callee may raise non-deterministically (assumed contracts)
    allow_raises: bool = False  # if False, any raising path of a verified target must satisfy ensures too
    concretize: Optional[Callable] = None  # (model, params, S) -> plain-data case for native replay
    local_types: Dict[str, Ty] = field(default_factory=dict)  # declared types of locals that start as untyped empties (set(), dict(), OrderedDict())
    fresh_result: bool = False  # the returned object is newly allocated (proved as an obligation, used for distinctness at call sites)
    init_fields: Optional[Callable] = None  # __init__ contracts: (ctx) -> {field: initial value}; used for parallel allocation
    call_overrides: Dict[str, Callable] = field(default_factory=dict)  # per-target call-site semantics of a callee (key -> apply)
    mutates_args: Tuple[str, ...] = ()  # keyword arguments whose container the callee changes in place (its `apply` stores the new value back; loops havoc the variable)
    init_frame: bool = False  # constructors: "only the new object's entries of the `modifies` fields change" -- an obligation of the body, a fact at call sites
    body_select: Optional[Callable] = None  # region contract: (FunctionDef) -> the statements (a suffix of the real body) that are executed; the parameters are
    #                                         then the values of the same-named variables at the region's entry, constrained by `requires`


class Registry:
    def __init__(self):
        self.contracts: Dict[str, Contract] = {}
        self.by_name: Dict[str, List[Contract]] = {}
        self.classes: Dict[str, ClassDecl] = {}
        self.globals: Dict[str, Any] = {}
        self.iter_views: Dict[str, Callable] = {}
        self.opaque_attrs: Dict[Tuple[str, str], Callable] = {}
        self.opaque_methods: Dict[Tuple[str, str], Contract] = {}
        self.fstring_fn = None
        self.assumptions_used: List[str] = []

    def add(self, c: Contract) -> Contract:
        self.contracts[c.key] = c
        for n in c.names or ((c.qualname or c.key).split(".")[-1],):
            self.by_name.setdefault(n, []).append(c)
        return c

    def add_class(self, name: str, fields: Dict[str, Ty], bases=(), file: str = "") -> ClassDecl:
        cd = ClassDecl(name, fields, tuple(bases), tag=len(self.classes) + 1, file=file)
        self.classes[name] = cd
        return cd

    def contracts_named(self, name: str) -> List[Contract]:
        return self.by_name.get(name, [])

    def is_global(self, name: str) -> bool:
        return name in self.globals

    def iter_view(self, eng, st, obj: VScalar, node):
        f = self.iter_views.get(obj.ty.name)
        return f(eng, st, obj) if f else None

    def opaque_attr(self, eng, st, o: VScalar, attr: str, node):
        f = self.opaque_attrs.get((o.ty.name, attr))
        return f(eng, st, o) if f else None

    def subscript(self, eng, st, cont, key, node):
        for h in getattr(self, "subscript_hooks", []):
            r = h(eng, st, cont, key, node)
            if r is not None:
                return r
        return None

    def method_contract(self, eng, cls: str, name: str, nargs: int = None) -> Optional[Contract]:
        if nargs is not None:
            c = self.method_contract(eng, cls, "%s[%d iterables]" % (name, nargs))
            if c is not None:
                return c
        todo = [cls]
        seen = set()
        while todo:
            c = todo.pop(0)
            if c in seen:
                continue
            seen.add(c)
            k = "%s.%s" % (c, name)
            if k in self.contracts:
                return self.contracts[k]
            if c in self.classes:
                todo.extend(self.classes[c].bases)
        return None

    def fstring(self, eng, st, skeleton: str, vals: List[V], node):
        """f-string as an injective function of its formatted pieces (assumption recorded)."""
        if not vals:
            return VStr(skeleton.replace("{}", ""))
        zs = []
        for v in vals:
            if isinstance(v, VStr):
                zs.append(eng.S.str_const(v.s))
            elif isinstance(v, VPy) and isinstance(v.obj, int):
                zs.append(z3.IntVal(v.obj))
            elif isinstance(v, VScalar):
                zs.append(v.z)
            elif type(v).__name__ in ("VSet", "VList", "VDict", "VTuple", "VODict"):
                # the printed form of a container: an arbitrary string (nothing may be concluded from it)
                zs.append(z3.Const(fresh_name("fstr_container_text"), eng.S.Atom))
                self.note("text of a container inside an f-string treated as an arbitrary string")
            else:
                raise Unsupported("f-string piece %s" % type(v).__name__, node)
        _log_pieces = list(zs)
        fn = eng.S.func("fstr_%d_%s" % (len(zs), "".join(ch if ch.isalnum() else "_" for ch in skeleton)[:30] + "_" + "_".join(str(z.sort()) for z in zs)), *[z.sort() for z in zs], eng.S.Atom)
        r = fn(*zs)
        st.assume(r != eng.S.NONE)
        st.ghost["fstring_log"] = list(st.ghost.get("fstring_log", [])) + [(r, _log_pieces)]  # which values each f-string was built from (for "the key identifies the node" clauses)
        self.note("f-string %r treated as an injective function of its pieces, distinct from None" % skeleton)
        inv_facts = st.ghost.setdefault("fstr_inj", set())
        tag = str(fn)
        if tag not in inv_facts:
            inv_facts = set(inv_facts)
            inv_facts.add(tag)
            st.ghost["fstr_inj"] = inv_facts
            xs = [z3.Const(fresh_name("fx"), z.sort()) for z in zs]
            for idx, z in enumerate(zs):
                inv = z3.Function("inv%d_%s" % (idx, tag), eng.S.Atom, z.sort())
                st.assume(z3.ForAll(xs, inv(fn(*xs)) == xs[idx], patterns=[fn(*xs)]))
        return VScalar(r, T.atom)

    def strcat(self, eng, st, a: V, b: V, node):
        """a + b on strings: an uninterpreted concatenation, cancellative on both sides, with "" as identity (assumption)."""
        S = eng.S
        az, bz = eng.as_atom(a, st, node), eng.as_atom(b, st, node)
        cat = S.func("str_concat", S.Atom, S.Atom, S.Atom)
        empty = S.str_const("")
        if bz.eq(empty):
            return a if isinstance(a, VScalar) else VScalar(az, T.atom)
        if az.eq(empty):
            return b if isinstance(b, VScalar) else VScalar(bz, T.atom)
        r = cat(az, bz)
        if "strcat_axioms" not in st.ghost:
            st.ghost["strcat_axioms"] = True
            x, y = z3.Const("sc_x", S.Atom), z3.Const("sc_y", S.Atom)
            rest = S.func("str_strip_prefix", S.Atom, S.Atom, S.Atom)
            head = S.func("str_strip_suffix", S.Atom, S.Atom, S.Atom)
            # (None is an element of the Atom sort: the `is a string` conclusion is only for string operands -- stated unconditionally it contradicts the identity axiom at x = None)
            st.assume(z3.ForAll([x, y], z3.And(rest(cat(x, y), x) == y, head(cat(x, y), y) == x, z3.Implies(z3.And(x != S.NONE, y != S.NONE), cat(x, y) != S.NONE)), patterns=[cat(x, y)]))
            st.assume(z3.ForAll([x], z3.And(cat(x, empty) == x, cat(empty, x) == x), patterns=[cat(x, empty), cat(empty, x)]))
            st.assume(z3.ForAll([x, y], z3.Implies(cat(x, y) == empty, z3.And(x == empty, y == empty)), patterns=[cat(x, y)]))  # a concatenation is empty only if both parts are
            self.note("string + is an uninterpreted concatenation: cancellative on both sides, '' is its identity")
        return VScalar(r, T.atom)

    def note(self, s: str) -> None:
        if s not in self.assumptions_used:
            self.assumptions_used.append(s)


# ---------------------------------------------------------------------------- source access


def load_function(file: str, qualname: str) -> ast.FunctionDef:
    path = os.path.join(REPO, file)
    with open(path) as f:
        tree = ast.parse(f.read())
    parts = qualname.split(".")
    body = tree.body
    node = None
    for p in parts:
        node = next((n for n in body if isinstance(n, (ast.FunctionDef, ast.ClassDef)) and n.name == p), None)
        if node is None:
            raise Unsupported("target %s::%s not found" % (file, qualname))
        body = node.body
    if not isinstance(node, ast.FunctionDef):
        raise Unsupported("target %s::%s is not a function" % (file, qualname))
    return node


def signature(fn: ast.FunctionDef):
    a = fn.args
    pos = [x.arg for x in a.posonlyargs + a.args]
    defaults = {}
    for name, d in zip(pos[len(pos) - len(a.defaults):], a.defaults):
        defaults[name] = d
    kwonly = [x.arg for x in a.kwonlyargs]
    for name, d in zip(kwonly, a.kw_defaults):
        if d is not None:
            defaults[name] = d
    return pos, kwonly, defaults, a.vararg.arg if a.vararg else None, a.kwarg.arg if a.kwarg else None


def bind_call(fn: ast.FunctionDef, args: List[V], kwargs: Dict[str, V], skip_self: bool):
    """python call binding against the callee's REAL signature; returns dict or Raised('TypeError')."""
    pos, kwonly, defaults, vararg, kwarg = signature(fn)
    if skip_self:
        pos = pos[1:]
    bound: Dict[str, Any] = {}
    if len(args) > len(pos) and vararg is None:
        return Raised("TypeError", "too many positional arguments")
    for name, v in zip(pos, args):
        bound[name] = v
    extra = args[len(pos):]
    if vararg is not None:
        bound[vararg] = VTuple(list(extra))
    for k, v in kwargs.items():
        if k in bound:
            return Raised("TypeError", "multiple values for " + k)
        if k in pos or k in kwonly:
            bound[k] = v
        elif kwarg is not None:
            bound.setdefault(kwarg, {})[k] = v
        else:
            return Raised("TypeError", "unexpected keyword argument " + k)
    for name in pos + kwonly:
        if name not in bound:
            if name in defaults:
                bound[name] = ("default", defaults[name])
            else:
                return Raised("TypeError", "missing argument " + name)
    return bound


def const_default(node: ast.expr) -> V:
    if isinstance(node, ast.Constant):
        if node.value is None:
            return VNone()
        if isinstance(node.value, str):
            return VStr(node.value)
        if isinstance(node.value, (bool, int)):
            return VPy(node.value)
    raise Unsupported("non-constant default argument", node)


# ---------------------------------------------------------------------------- applying a contract at a call site


def apply_contract(eng: Engine, st: State, c: Contract, args: List[V], kwargs: Dict[str, V], node, self_obj: Optional[VScalar] = None):
    """modular call: precondition becomes an obligation, postcondition an assumption on a fresh result."""
    if c.file and c.qualname:
        fn = c.node or load_function(c.file, c.qualname)
        c.node = fn
        b = bind_call(fn, args, kwargs, skip_self=self_obj is not None or c.is_init)
        if isinstance(b, Raised):
            return [(st, b)]
        argmap = {}
        for k, v in b.items():
            argmap[k] = const_default(v[1]) if isinstance(v, tuple) and v and v[0] == "default" else v
    else:
        names = [n for n in c.params if n != "self"]
        argmap = {}
        for n, v in zip(names, args):
            argmap[n] = v
        for k, v in kwargs.items():
            argmap[k] = v
        if len(args) > len(names):
            argmap["*args"] = VTuple(list(args[len(names):]))
    if self_obj is not None:
        argmap["self"] = self_obj
    for name, ty in list(c.params.items()):
        if ty.kind == "varargs":
            items = argmap.get(name)
            items = items.items if isinstance(items, VTuple) else []
            if len(items) != len(ty.args):
                raise Unsupported("contract %s covers %d star-arguments, call passes %d" % (c.key, len(ty.args), len(items)), node)
            for nm, it in zip(ty.args, items):
                argmap[nm] = it
    ov = getattr(eng.current, "call_overrides", None) if eng.current is not None else None
    if ov and c.key in ov:
        return ov[c.key](eng, st, argmap, node)  # the target under verification views this callee through its own (stronger / differently typed) abstraction
    if c.apply is not None:
        return c.apply(eng, st, argmap, node)
    params: Dict[str, V] = {}
    for name, ty in c.params.items():
        if name == "self" and self_obj is not None:
            params[name] = self_obj
            continue
        if ty.kind == "varargs":
            continue
        if name not in argmap:
            if name == "self" and c.is_init:
                continue
            raise Unsupported("contract %s: argument %s not supplied" % (c.key, name), node)
        a = argmap[name]
        if ty.kind == "opt" and not isinstance(a, VOpt):
            # contracts see optional parameters case-split, exactly as at verification time: None or the value
            params[name] = a if isinstance(a, VNone) else eng.coerce(a, ty.args[0], st, node)
        else:
            params[name] = eng.coerce(a, ty, st, node)
    for name, v in argmap.items():
        params.setdefault(name, v)
    results = []
    if c.is_init:
        params["self"] = eng.alloc(st, c.cls)
    old_heap = st.heap_snapshot()
    ctx = Ctx(eng, st, params, old_heap)
    line = getattr(node, "lineno", 0)
    if c.requires:
        for (nm, f) in c.requires(ctx):
            st.oblige("%s.call@line%d:%s.pre.%s" % (eng.current.key if eng.current else "?", line, c.key, nm), f, line)
            st.assume(f)
    cur = st
    if c.raises:
        for exc, cond in c.raises(ctx).items():
            t, f = eng.branch(cur, cond, node)
            if t is not None:
                results.append((t, Raised(exc)))
            if f is None:
                return results
            cur = f
    for exc in c.may_raise:
        r = cur.fork()
        results.append((r, Raised(exc)))
    # havoc what the callee may modify
    for key in c.modifies:
        hf = eng.heap_field(cur, key[0], key[1])
        old_parts = list(hf.parts)
        hf.parts = [z3.Const(fresh_name("H_%s_%s_c" % key), p.sort()) for p in hf.parts]
        if c.is_init and c.init_frame:
            o = z3.Int(fresh_name("o"))
            for (pn, po) in zip(hf.parts, old_parts):
                cur.assume(z3.ForAll([o], z3.Implies(o != params["self"].z, pn[o] == po[o]), patterns=[pn[o]]))
    facts: List[Any] = []
    if c.is_init:
        res: V = params["self"]
    elif c.returns is None or c.returns.kind == "none":
        res = VNone()
    elif c.fresh_result and c.returns.kind == "obj":
        res = eng.alloc(cur, c.returns.name)
    else:
        res = fresh(eng.S, c.returns, "ret_" + c.key.split(".")[-1], facts)
    for f in facts:
        cur.assume(f)
    ctx2 = Ctx(eng, cur, params, old_heap, result=res)
    if c.ensures:
        for (nm, f) in c.ensures(ctx2):
            cur.assume(f)
    if c.assumed:
        eng.registry.note("assumed contract: " + c.key + ((" — " + c.note) if c.note else ""))
    results.append((cur, res))
    return results


# ---------------------------------------------------------------------------- verifying a target


@dataclass
class VC:
    name: str
    formula: Any
    pc: List[Any]
    path: str
    line: int = 0
    params: Any = None


@dataclass
class VCResult:
    name: str
    status: str  # unsat (proved) | sat | unknown
    backend: str
    seconds: float
    model: Any = None
    path: str = ""
    detail: str = ""
    confirmed: Any = None  # native replay outcome of a confirmed counterexample
    artefacts: Any = None  # candidate counter-models that did not reproduce natively


def entry_variants(eng: Engine, c: Contract, fn: ast.FunctionDef):
    """fresh symbolic parameters; optional parameters are case-split into None / value."""
    pos, kwonly, defaults, vararg, kwarg = signature(fn)
    names = pos + kwonly
    variants: List[Tuple[Dict[str, V], List[Any], str]] = [({}, [], "")]
    for name in names:
        nxt = []
        for (pm, facts, tag) in variants:
            if name == "self" and c.cls:
                f2 = list(facts)
                v = fresh(eng.S, T.obj(c.cls), "self", f2)
                nxt.append((dict(pm, self=v), f2, tag))
                continue
            ty = c.params.get(name)
            if ty is None:
                if name in defaults:
                    nxt.append((dict(pm, **{name: const_default(defaults[name])}), facts, tag))
                    continue
                raise Unsupported("parameter %s of %s has no declared type" % (name, c.key))
            if ty.kind == "opt":
                nxt.append((dict(pm, **{name: VNone()}), facts, tag + "[%s=None]" % name))
                f2 = list(facts)
                v = fresh(eng.S, ty.args[0], name, f2)
                nxt.append((dict(pm, **{name: v}), f2, tag + "[%s!=None]" % name))
            elif ty.kind == "py":
                for val in ty.args:
                    nxt.append((dict(pm, **{name: (VNone() if val is None else VPy(val))}), facts, tag + "[%s=%r]" % (name, val)))
            else:
                f2 = list(facts)
                v = fresh(eng.S, ty, name, f2)
                nxt.append((dict(pm, **{name: v}), f2, tag))
        variants = nxt
    if vararg is not None:
        ty = c.params.get(vararg)
        nxt = []
        for (pm, facts, tag) in variants:
            f2 = list(facts)
            items = []
            pm2 = dict(pm)
            for nm in (ty.args if ty is not None and ty.kind == "varargs" else ()):
                v = fresh(eng.S, c.params[nm], nm, f2)
                pm2[nm] = v
                items.append(v)
            pm2[vararg] = VTuple(items)
            nxt.append((pm2, f2, tag))
        variants = nxt
    if kwarg is not None:
        variants = [(dict(pm, **{kwarg: VPy(("dictlit", []))}), facts, tag) for (pm, facts, tag) in variants]
    return variants


def generate_vcs(reg: Registry, c: Contract, S: Optional[Sorts] = None) -> Tuple[List[VC], Dict[str, Any]]:
    """symbolically execute the real body of c's target and return all verification conditions."""
    S = S or Sorts()
    eng = Engine(S, reg, reg.classes)
    fn = load_function(c.file, c.qualname)
    c.node = fn
    eng.current = c
    vcs: List[VC] = []
    info = {"paths": 0, "raising_paths": 0, "returning_paths": 0, "variants": 0, "feasible_paths": 0}
    for (params, facts, tag) in entry_variants(eng, c, fn):
        info["variants"] += 1
        st = State(S)
        eng.init_heap(st)
        for f in facts:
            st.assume(f)
        for name, ty in c.ghost_params.items():
            gf: List[Any] = []
            params[name] = fresh(S, ty, name, gf)
            for f in gf:
                st.assume(f)
        st.env.update({k: v for k, v in params.items()})
        if c.is_init and "self" in params:
            st.assume(eng.tag_of(st, params["self"]) == reg.classes[c.cls].tag)
            st.assume(z3.Not(eng.allocated(st, params["self"])))  # the object under construction is new: distinct from every argument object
        elif c.cls and "self" in params:
            tags = [reg.classes[k].tag for k in eng.subclasses(c.cls)]
            st.assume(z3.Or(*[eng.tag_of(st, params["self"]) == t for t in tags]))
        for pv in params.values():
            if isinstance(pv, VScalar) and pv.ty.kind == "obj" and not (c.is_init and pv is params.get("self")):
                st.assume(eng.allocated(st, pv))
        old_heap = st.heap_snapshot()
        eng.current_params = params
        eng.entry_heap = old_heap
        ctx0 = Ctx(eng, st, params, old_heap)
        if c.requires:
            for (nm, f) in c.requires(ctx0):
                st.assume(f)
        if c.entry_assume:
            for f in c.entry_assume(ctx0):
                st.assume(f)
        # vacuity: the precondition must be satisfiable
        vcs.append(VC("%s.precondition-satisfiable%s" % (c.key, tag), "SAT?", list(st.pc), tag))
        old_ghost = dict(st.ghost)
        body = fn.body
        if c.body_select is not None:
            body = c.body_select(fn)
            if not body:
                raise Unsupported("region of %s not found in the current source" % c.key)
        outs = eng.exec_block(body, st)
        for (s2, o) in outs:
            info["paths"] += 1
            if o is None:
                o = ("return", VNone())
            if o[0] in ("break", "continue"):
                raise Unsupported("break/continue outside loop")
            raised = o[1].exc if o[0] == "raise" else None
            result = None if raised else o[1]
            info["raising_paths" if raised else "returning_paths"] += 1
            ctx = Ctx(eng, s2, params, old_heap, result=result, raised=raised, old_ghost=old_ghost)
            pathname = "%s path#%d(%s)" % (tag, info["paths"], raised or "return")
            if c.ensures:
                for (nm, f) in c.ensures(ctx):
                    vcs.append(VC("%s.%s" % (c.key, nm), f, list(s2.pc), pathname, 0, dict(params, __result__=result)))
            if c.is_init and c.init_frame and not raised:
                o = z3.Int(fresh_name("o"))
                fr = []
                for key in c.modifies:
                    for (pn, po) in zip(ctx.heap_parts(key[0], key[1]), ctx.heap_parts(key[0], key[1], old=True)):
                        fr.append(z3.ForAll([o], z3.Implies(o != params["self"].z, pn[o] == po[o])))
                vcs.append(VC("%s.constructor-writes-only-the-new-object's-fields" % c.key, z3.And(*fr) if fr else z3.BoolVal(True), list(s2.pc), pathname, 0, dict(params)))
            if c.fresh_result and not raised and isinstance(result, VScalar) and result.ty.kind == "obj":
                al0 = old_ghost.get("alloc", z3.Const("alloc0", z3.ArraySort(z3.IntSort(), z3.BoolSort())))
                vcs.append(VC("%s.result-is-a-new-object" % c.key, z3.Not(al0[result.z]), list(s2.pc), pathname, 0, dict(params, __result__=result)))
        # obligations raised inside bodies (shared list)
        for p in st.pending:
            import re as _re
            nm = _re.sub(r"@line\d+", "", p.name)  # names must survive harmless line shifts; the line goes into `path`
            vcs.append(VC(nm if nm.startswith(c.key) else "%s.%s" % (c.key, nm), p.formula, p.pc, tag + "@line%d" % p.line, p.line, dict(params)))
        st.pending.clear()
    info["assumptions"] = list(reg.assumptions_used)
    return vcs, info


# ---------------------------------------------------------------------------- discharge


def z3_check(S: Sorts, pc: List[Any], goal, timeout_ms: int, want_model: bool = False, mbqi: bool = True, seed: int = 0):
    s = z3.Solver()
    s.set("timeout", timeout_ms)
    if not mbqi:
        s.set("smt.mbqi", False)  # E-matching only: sound for unsat answers, usually faster and steadier on valid VCs
    if seed:
        s.set("smt.random_seed", seed)
    for f in S.distinctness():
        s.add(f)
    for f in pc:
        s.add(f)
    if goal is not None:
        s.add(z3.Not(goal))
    t0 = time.time()
    r = s.check()
    dt = time.time() - t0
    model = None
    if r == z3.sat and want_model:
        model = s.model()
    return str(r), dt, model, s


def cvc5_check(solver: z3.Solver, timeout_s: int):
    """second opinion on z3's `unknown`: export SMT-LIB and run the cvc5 binary."""
    try:
        text = solver.to_smt2()
    except Exception as ex:
        return "error", 0.0, str(ex)
    if "(map " in text or "(_ map" in text or "lambda" in text:
        return "unsupported", 0.0, "z3-specific array combinators in query"
    text = "(set-logic ALL)\n" + text
    t0 = time.time()
    with tempfile.NamedTemporaryFile("w", suffix=".smt2", delete=False) as f:
        f.write(text)
        path = f.name
    try:
        p = subprocess.run(["/usr/bin/cvc5", "--tlimit=%d" % (timeout_s * 1000), "--full-saturate-quant", path], capture_output=True, text=True, timeout=timeout_s + 10)
        out = (p.stdout or "").strip().splitlines()
        res = out[0] if out else "error"
    except Exception as ex:
        res = "error"
        out = [str(ex)]
    finally:
        os.unlink(path)
    return res, time.time() - t0, "\n".join(out[:5])


def finite_scope_model(S: Sorts, pc: List[Any], goal, k: int = 4, timeout_ms: int = 20000):
    """counter-model search: every uninterpreted sort is closed to k named elements, list lengths bounded."""
    extra = []
    sorts = set()

    def collect(e, seen):
        if e.get_id() in seen:
            return
        seen.add(e.get_id())
        if z3.is_app(e) or z3.is_var(e):
            so = e.sort()
            stack = [so]
            while stack:
                x = stack.pop()
                if x.kind() == z3.Z3_UNINTERPRETED_SORT:
                    sorts.add(x)
                elif x.kind() == z3.Z3_ARRAY_SORT:
                    stack.extend([x.domain(), x.range()])
        if z3.is_quantifier(e):
            for i in range(e.num_vars()):
                so = e.var_sort(i)
                if so.kind() == z3.Z3_UNINTERPRETED_SORT:
                    sorts.add(so)
            collect(e.body(), seen)
        else:
            for ch in e.children():
                collect(ch, seen)

    seen: set = set()
    for f in pc + ([goal] if goal is not None else []):
        if isinstance(f, z3.ExprRef):
            collect(f, seen)
    for so in sorts:
        cs = [z3.Const("fs_%s_%d" % (so.name(), i), so) for i in range(k)]
        x = z3.Const("fsx_%s" % so.name(), so)
        extra.append(z3.ForAll([x], z3.Or(*[x == c for c in cs])))
    r, dt, model, s = z3_check(S, pc + extra, goal, timeout_ms, want_model=True)
    return r, dt, model


def discharge(S: Sorts, vc: VC, timeout_ms: int = 30000, use_cvc5: bool = True, validate=None, refute_here: bool = False) -> VCResult:
    """validate(model) -> dict(fails=bool, case=..., observed=...) replays a candidate counter-model natively."""
    if isinstance(vc.formula, str) and vc.formula == "SAT?":
        r, dt, _, _ = z3_check(S, vc.pc, None, 10000)
        # vacuity guard: precondition must not be contradictory (unknown tolerated: quantified preconditions)
        return VCResult(vc.name, "unsat" if r in ("sat", "unknown") else "sat", "z3", dt, path=vc.path, detail="precondition is " + r)
    goal = vc.formula
    if goal is True:
        return VCResult(vc.name, "unsat", "trivial", 0.0, path=vc.path)
    if goal is False:
        goal = z3.BoolVal(False)
    # stage 1: short z3 attempt (provable VCs take well under a second)
    r, dt, _, solver = z3_check(S, vc.pc, goal, min(timeout_ms, 5000), mbqi=False)
    if r == "unsat":
        return VCResult(vc.name, "unsat", "z3(e-matching)", dt, path=vc.path)
    r, dt1, _, solver = z3_check(S, vc.pc, goal, min(timeout_ms, 6000))
    dt += dt1
    if r == "unsat":
        return VCResult(vc.name, "unsat", "z3", dt, path=vc.path)
    detail = "z3(6s): %s" % r
    # stage 2: finite-scope counter-model (candidate only; reported after native replay)
    from .modelfind import ground_model_search
    artefacts = []
    for k in ((2, 3, 4) if refute_here else ()):
        fr, fdt, model, info = ground_model_search(S, vc.pc, goal, k=k)
        dt += fdt
        detail += "; ground scope k=%d: %s (%s)" % (k, fr, info)
        if fr == "sat":
            if validate is None:
                return VCResult(vc.name, "sat", "z3-ground-scope(k=%d)" % k, dt, model=model, path=vc.path, detail=detail)
            out = validate(model)
            if out.get("fails"):
                res = VCResult(vc.name, "sat", "z3-ground-scope(k=%d)" % k, dt, model=None, path=vc.path, detail=detail)
                res.confirmed = out
                return res
            artefacts.append({"k": k, "case": out.get("case"), "observed": str(out.get("observed"))[:300]})
            detail += " [candidate did not reproduce natively]"
    if not refute_here:
        res = VCResult(vc.name, "unknown", "z3", dt, path=vc.path, detail=detail)
        res.artefacts = []
        return res
    # stage 3: full budget, then cvc5 on z3's unknown
    if r != "sat":
        r, dt3, _, solver = z3_check(S, vc.pc, goal, timeout_ms * 3)
        dt += dt3
        detail += "; z3(%ds): %s" % (timeout_ms * 3 // 1000, r)
        if r == "unsat":
            return VCResult(vc.name, "unsat", "z3", dt, path=vc.path, detail=detail)
    if r == "unknown" and use_cvc5:
        r2, dt2, info = cvc5_check(solver, 60)
        dt += dt2
        detail += "; cvc5: %s" % r2
        if r2 == "unsat":
            return VCResult(vc.name, "unsat", "cvc5", dt, path=vc.path, detail=detail)
    res = VCResult(vc.name, "unknown", "z3+cvc5", dt, path=vc.path, detail=detail)
    res.artefacts = artefacts
    return res


def discharge_long(S: Sorts, vc: VC, timeout_ms: int, use_cvc5: bool = True) -> VCResult:
    """last stage for a VC that was neither proved quickly nor refuted: full z3 budget, then cvc5."""
    goal = z3.BoolVal(False) if vc.formula is False else vc.formula
    r, dt, _, solver = z3_check(S, vc.pc, goal, timeout_ms)
    detail = "z3(%ds): %s" % (timeout_ms // 1000, r)
    if r == "unsat":
        return VCResult(vc.name, "unsat", "z3", dt, path=vc.path, detail=detail)
    if r == "unknown":
        # z3's quantifier instantiation is sensitive to search order: an obligation that normally takes milliseconds occasionally diverges.
        # Independent re-tries with other random seeds (e-matching only, short) make the verdict on the unchanged tree stable.
        for sd in (11, 23, 47, 101):
            r1, dt1, _, _ = z3_check(S, vc.pc, goal, 8000, mbqi=False, seed=sd)
            dt += dt1
            if r1 == "unsat":
                return VCResult(vc.name, "unsat", "z3(e-matching,seed=%d)" % sd, dt, path=vc.path, detail=detail + "; reseeded: unsat")
        detail += "; 4 reseeded retries: unknown"
    if r == "unknown" and use_cvc5:
        r2, dt2, info = cvc5_check(solver, max(10, timeout_ms // 1000))
        dt += dt2
        detail += "; cvc5: %s" % r2
        if r2 == "unsat":
            return VCResult(vc.name, "unsat", "cvc5", dt, path=vc.path, detail=detail)
    return VCResult(vc.name, "unknown", "z3+cvc5", dt, path=vc.path, detail=detail)


def refute_finite(reg: "Registry", c: Contract, names: List[str], validate_for, scopes=(3, 4, 5), timeout_ms: int = 15000):
    """Refutation mode: re-run the symbolic execution with a FINITE Atom sort (k atoms + None), expand every
    quantifier over the finite domains, and ask z3 for a model of pc ∧ ¬goal.  Candidates are replayed natively by
    validate_for(S_k, vc_k)(model); only a confirmed replay counts.  Returns {name: (confirmed|None, log, seconds)}."""
    from .modelfind import ground_model_search
    out: Dict[str, Any] = {n: {"confirmed": None, "log": [], "seconds": 0.0, "artefacts": []} for n in names}
    for k in scopes:
        todo = [n for n in names if out[n]["confirmed"] is None]
        if not todo:
            break
        Sk = Sorts(finite_atoms=k)
        try:
            vcs_k, _ = generate_vcs(reg, c, Sk)
        except Exception as ex:  # finite mode must never turn into a verdict
            for n in todo:
                out[n]["log"].append("k=%d: generation failed: %r" % (k, ex))
            continue
        for vc in vcs_k:
            if vc.name not in todo or out[vc.name]["confirmed"] is not None or isinstance(vc.formula, str):
                continue
            goal = z3.BoolVal(False) if vc.formula is False else vc.formula
            if goal is True:
                continue
            fr, fdt, model, info = ground_model_search(Sk, vc.pc, goal, k=k, timeout_ms=timeout_ms)
            out[vc.name]["seconds"] += fdt
            out[vc.name]["log"].append("k=%d %s: %s (%s)" % (k, vc.path.strip(), fr, info))
            if fr == "sat":
                res = validate_for(Sk, vc)(model)
                if res.get("fails"):
                    out[vc.name]["confirmed"] = res
                    out[vc.name]["backend"] = "z3 finite scope k=%d" % k
                else:
                    out[vc.name]["artefacts"].append({"k": k, "case": res.get("case"), "observed": str(res.get("observed"))[:300]})
    return out
