"""Finite-scope counter-model search by ground instantiation.

The unbounded VC (pc ∧ ¬goal) contains quantified axioms, so z3 answers `unknown` for broken code
(a model of quantified axioms cannot be certified).  Here every universal quantifier is expanded over a
finite domain: k named atoms for the Atom sort, 0..k for Int-sorted index variables, the ground terms that
occur in the query for the remaining sorts.  The result is quantifier-free; a model of it is a *candidate*
counterexample which is only reported after it has been replayed against the real code.
"""
from __future__ import annotations

import itertools
import time
from typing import Any, Dict, List

import z3


def _skolemize(fs: List[Any]) -> List[Any]:
    g = z3.Goal()
    for f in fs:
        g.add(f)
    r = z3.Tactic("snf")(g)
    out = []
    for sub in r:
        out.extend(list(sub))
    return out


def _ground_terms(fs: List[Any], by_sort: Dict[Any, Dict[int, Any]], limit: int = 14) -> None:
    seen = set()

    def has_var(e, cache={}):
        i = e.get_id()
        if i in cache:
            return cache[i]
        if z3.is_var(e):
            r = True
        elif z3.is_quantifier(e):
            r = True
        else:
            r = any(has_var(c) for c in e.children())
        cache[i] = r
        return r

    def walk(e):
        i = e.get_id()
        if i in seen:
            return
        seen.add(i)
        if z3.is_quantifier(e):
            walk(e.body())
            return
        for c in e.children():
            walk(c)
        if z3.is_app(e) and not has_var(e):
            so = e.sort()
            if so.kind() in (z3.Z3_BOOL_SORT,):
                return
            d = by_sort.setdefault(so.get_id(), {})
            if len(d) < limit:
                d[e.get_id()] = e

    for f in fs:
        walk(f)


def _expand(e, domains, only_simple: bool, atom_sort, stats):
    """replace universal quantifiers (formula is in skolem normal form) by finite conjunctions."""
    if z3.is_quantifier(e):
        if not e.is_forall():
            return e  # snf leaves no positive existentials; lambdas untouched
        sorts = [e.var_sort(i) for i in range(e.num_vars())]
        simple = all(s == atom_sort or s.kind() == z3.Z3_INT_SORT for s in sorts)
        if only_simple and not simple:
            return e
        doms = []
        for s in sorts:
            d = domains(s)
            if not d:
                return z3.BoolVal(True)  # no instance available: drop the axiom (candidate model only)
            doms.append(d)
        n = 1
        for d in doms:
            n *= len(d)
        if n > 6000:
            stats["dropped"] = stats.get("dropped", 0) + 1
            return z3.BoolVal(True)
        body = e.body()
        insts = []
        for combo in itertools.product(*doms):
            # de Bruijn: variable 0 is the LAST bound variable
            inst = z3.substitute_vars(body, *reversed(combo))
            insts.append(_expand(inst, domains, only_simple, atom_sort, stats))
        stats["instances"] = stats.get("instances", 0) + len(insts)
        return z3.And(*insts) if insts else z3.BoolVal(True)
    if z3.is_app(e) and e.num_args() > 0 and e.sort().kind() == z3.Z3_BOOL_SORT:
        ch = [_expand(c, domains, only_simple, atom_sort, stats) for c in e.children()]
        if any(not a.eq(b) for a, b in zip(ch, e.children())):
            return e.decl()(*ch)
    return e


def ground_model_search(S, pc: List[Any], goal, k: int = 3, timeout_ms: int = 20000, closure: bool = True):
    t0 = time.time()
    closure_on = closure
    fs = list(S.distinctness()) + [f for f in pc if isinstance(f, z3.ExprRef)]
    if goal is not None:
        fs.append(z3.Not(goal))
    try:
        fs = _skolemize(fs)
    except z3.Z3Exception as ex:
        return "error", time.time() - t0, None, "snf failed: %s" % ex
    if S.finite:
        atoms = list(S.universe) + [S.NONE]
    else:
        atoms = [z3.Const("scope_atom_%d" % i, S.Atom) for i in range(k)] + [S.NONE] + list(S.str_consts.values())
    ints = [z3.IntVal(i) for i in range(0, k + 1)]
    stats: Dict[str, int] = {}

    def simple_dom(s):
        if s == S.Atom:
            return atoms
        if s.kind() == z3.Z3_INT_SORT:
            return ints
        return None

    # pass 1: Atom / Int quantifiers
    fs1 = [_expand(f, lambda s: simple_dom(s) or [], True, S.Atom, stats) for f in fs]
    by_sort: Dict[Any, Dict[int, Any]] = {}
    _ground_terms(fs1, by_sort)

    def full_dom(s):
        d = simple_dom(s)
        if d is not None:
            return d
        return list(by_sort.get(s.get_id(), {}).values())

    fs2 = [_expand(f, full_dom, False, S.Atom, stats) for f in fs1]
    # closure: every Atom-sorted ground term denotes one of the scope atoms; list lengths / ints stay small
    by_sort2: Dict[Any, Dict[int, Any]] = {}
    _ground_terms(fs2, by_sort2, limit=400)
    closure = []
    for t in by_sort2.get(S.Atom.get_id(), {}).values():
        if S.finite or any(t.eq(a) for a in atoms):
            continue
        closure.append(z3.Or(*[t == a for a in atoms]))
    for t in by_sort2.get(z3.IntSort().get_id(), {}).values():
        if z3.is_int_value(t):
            continue
        if z3.is_const(t) and t.decl().kind() == z3.Z3_OP_UNINTERPRETED and ("_n!" in t.decl().name() or t.decl().name().startswith("enum_n")):
            closure.append(z3.And(t >= 0, t <= k))
    # real domain closure for the Atom sort: array extensionality may otherwise invent elements outside the scope,
    # which the expanded (formerly quantified) facts would not constrain
    if not S.finite:
        cx = z3.Const("scope_closure_x", S.Atom)
        closure.append(z3.ForAll([cx], z3.Or(*[cx == a for a in atoms])))
    if not closure_on:
        closure = []  # consistency canary: only INSTANCES of the facts (consequences), no finite-domain assumption
    s = z3.Solver()
    s.set("timeout", timeout_ms)
    for f in fs2 + closure:
        s.add(f)
    r = s.check()
    model = s.model() if r == z3.sat else None
    return str(r), time.time() - t0, model, "instances=%d dropped=%d" % (stats.get("instances", 0), stats.get("dropped", 0))
