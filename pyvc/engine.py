"""pyvc symbolic executor: runs the AST of a real /repo function over symbolic values, path by path.

Modular: calls to other functions are replaced by their contracts (pyvc.contracts.Contract).
Loops are cut at sidecar invariants.  Anything outside the supported subset raises Unsupported,
which makes the target *undecided* (never a violation).
"""
from __future__ import annotations

import ast
import copy
from dataclasses import dataclass, field
from typing import Any, Callable, Dict, List, Optional, Tuple

import z3

from .values import (
    Sorts, T, Ty, V, VDict, VList, VNone, VOpt, VPy, VScalar, VSet, VStr, VTuple,
    flatten, fresh, fresh_name, is_scalar, odict_invariant, rebuild, scalar_sort, veq,
)


class Unsupported(Exception):
    def __init__(self, msg, node=None):
        line = getattr(node, "lineno", None)
        super().__init__("%s%s" % (msg, " (line %s)" % line if line else ""))


@dataclass
class Raised:
    exc: str
    msg: str = ""


@dataclass
class HeapField:
    ty: Ty
    parts: List[Any]  # z3 arrays Int -> component sort
    template: V  # a value of the field type used to rebuild


@dataclass
class ClassDecl:
    name: str
    fields: Dict[str, Ty]
    bases: Tuple[str, ...] = ()
    tag: int = 0
    file: str = ""


@dataclass
class Pending:
    """an obligation generated inside a body (callee precondition, loop invariant, must-hold assert)."""

    name: str
    formula: Any
    pc: List[Any]
    line: int = 0


class State:
    def __init__(self, S: Sorts):
        self.S = S
        self.env: Dict[str, V] = {}
        self.heap: Dict[Tuple[str, str], HeapField] = {}
        self.pc: List[Any] = []
        self.pending: List[Pending] = []
        self.trace: List[str] = []
        self.ghost: Dict[str, Any] = {}
        self.alias: Dict[str, int] = {}
        self.used_assumptions: List[str] = []

    def fork(self) -> "State":
        st = State.__new__(State)
        st.S = self.S
        st.env = dict(self.env)
        st.heap = {k: HeapField(h.ty, list(h.parts), h.template) for k, h in self.heap.items()}
        st.pc = list(self.pc)
        st.pending = self.pending  # shared: obligations are collected globally with their own pc snapshot
        st.trace = list(self.trace)
        st.ghost = dict(self.ghost)
        st.alias = dict(self.alias)
        st.used_assumptions = self.used_assumptions
        return st

    def assume(self, f) -> None:
        if f is True or (z3.is_true(f) if isinstance(f, z3.ExprRef) else False):
            return
        self.pc.append(f)

    def oblige(self, name: str, f, line: int = 0) -> None:
        self.pending.append(Pending(name, f, list(self.pc), line))

    def heap_snapshot(self):
        return {k: HeapField(h.ty, list(h.parts), h.template) for k, h in self.heap.items()}


MUTATING = {
    "set": {"add", "update", "discard", "remove", "clear", "difference_update", "intersection_update"},
    "list": {"append", "extend", "sort", "insert", "pop", "remove", "clear"},
    "dict": {"update", "pop", "clear", "setdefault"},
}


class Engine:
    def __init__(self, S: Sorts, registry, classes: Dict[str, ClassDecl], solver_timeout_ms: int = 400):
        self.S = S
        self.registry = registry  # pyvc.contracts.Registry
        self.classes = classes
        self.prune_timeout = solver_timeout_ms
        self.current = None  # contract being verified
        self.loop_counter = 0
        self.n_paths = 0
        self.max_paths = 4000

    # ------------------------------------------------------------------ helpers

    def feasible(self, st: State, extra=None) -> bool:
        s = z3.Solver()
        s.set("timeout", self.prune_timeout)
        s.set("smt.mbqi", False)  # pruning only: `unknown` keeps the path
        for f in self.S.distinctness():
            s.add(f)
        for f in st.pc:
            s.add(f)
        if extra is not None:
            s.add(extra)
        return s.check() != z3.unsat

    def branch(self, st: State, cond, node=None) -> Tuple[Optional[State], Optional[State]]:
        """fork on a z3 Bool; returns (true_state or None, false_state or None)."""
        if isinstance(cond, bool):
            return (st, None) if cond else (None, st)
        cond = z3.simplify(cond)
        if z3.is_true(cond):
            return st, None
        if z3.is_false(cond):
            return None, st
        t = st.fork()
        t.assume(cond)
        f = st.fork()
        f.assume(z3.Not(cond))
        tt = t if self.feasible(t) else None
        ff = f if self.feasible(f) else None
        self.n_paths += 1
        if self.n_paths > self.max_paths:
            raise Unsupported("path explosion (> %d forks)" % self.max_paths, node)
        return tt, ff

    def truth(self, v: V, st: State, node=None):
        """python truthiness as a z3 Bool (or python bool)."""
        if isinstance(v, VNone):
            return False
        if isinstance(v, VPy):
            if isinstance(v.obj, tuple) and v.obj and v.obj[0] == "dictlit":
                return len(v.obj[1]) > 0
            if isinstance(v.obj, tuple) and v.obj and v.obj[0] == "emptyset":
                return False
            return bool(v.obj)
        if isinstance(v, VStr):
            return bool(v.s)
        if isinstance(v, VScalar):
            if v.ty.kind == "bool":
                return v.z
            if v.ty.kind == "int":
                return v.z != 0
            if v.ty.kind == "atom":
                return self.S.func("str_is_nonempty", self.S.Atom, z3.BoolSort())(v.z)
            if v.ty.kind == "oatom":
                raise Unsupported("truthiness of str-or-None", node)
            if v.ty.kind == "obj":
                return True
            raise Unsupported("truthiness of %r" % (v.ty,), node)
        if isinstance(v, VOpt):
            inner = self.truth(v.val, st, node)
            inner = z3.BoolVal(inner) if isinstance(inner, bool) else inner
            return z3.And(z3.Not(v.is_none), inner)
        if isinstance(v, VSet):
            return self.nonempty(v.arr)
        if isinstance(v, VDict):
            return self.nonempty(v.dom)
        if isinstance(v, VList):
            return v.n > 0
        if isinstance(v, VTuple):
            return len(v.items) > 0
        raise Unsupported("truthiness of %s" % type(v).__name__, node)

    def nonempty(self, arr):
        # combinatory array logic (const/map/store + extensionality) decides this without quantifiers
        return arr != z3.K(arr.sort().domain(), z3.BoolVal(False))

    def zbool(self, b):
        return z3.BoolVal(b) if isinstance(b, bool) else b

    def vbool(self, z) -> V:
        if isinstance(z, bool):
            return VPy(z)
        return VScalar(z, T.bool)

    def card(self, arr):
        f = self.S.func("card_" + str(arr.sort().domain()), arr.sort(), z3.IntSort())
        return f(arr)

    def card_facts(self, arr) -> List[Any]:
        c = self.card(arr)
        return [c >= 0, (c == 0) == z3.Not(self.nonempty(arr))]

    # ------------------------------------------------------------------ heap

    def heap_field(self, st: State, cls: str, fname: str) -> HeapField:
        key = self.field_owner(cls, fname)
        if key not in st.heap:
            ty = self.classes[key[0]].fields[fname]
            facts: List[Any] = []
            tmpl = fresh(self.S, ty, "tmpl_%s_%s" % key, facts)
            parts = [z3.Const(fresh_name("H_%s_%s" % key), z3.ArraySort(z3.IntSort(), p.sort())) for p in flatten(tmpl)]
            st.heap[key] = HeapField(ty, parts, tmpl)
        return st.heap[key]

    def init_heap(self, st: State) -> None:
        """materialise every declared heap field before the entry snapshot is taken."""
        for cname, cd in self.classes.items():
            for fname in cd.fields:
                self.heap_field(st, cname, fname)

    def field_owner(self, cls: str, fname: str) -> Tuple[str, str]:
        seen = []
        todo = [cls]
        while todo:
            c = todo.pop(0)
            if c in seen or c not in self.classes:
                continue
            seen.append(c)
            if fname in self.classes[c].fields:
                return (c, fname)
            todo.extend(self.classes[c].bases)
        raise Unsupported("unknown field %s.%s" % (cls, fname))

    def has_field(self, cls: str, fname: str) -> bool:
        try:
            self.field_owner(cls, fname)
            return True
        except Unsupported:
            return False

    def read_field(self, st: State, obj: VScalar, fname: str) -> V:
        hf = self.heap_field(st, obj.ty.name, fname)
        return rebuild(hf.template, [z3.simplify(z3.Select(p, obj.z)) for p in hf.parts])

    def write_field(self, st: State, obj: VScalar, fname: str, val: V, node=None) -> None:
        hf = self.heap_field(st, obj.ty.name, fname)
        try:
            val = self.coerce(val, hf.ty, st, node)
        except Unsupported:
            if isinstance(val, (VTuple, VList, VSet, VDict, VStr, VNone)) and hf.ty.kind in ("opt", "dict", "odict", "set", "list") and self.current is not None:
                # a container of the WRONG KIND is stored in a field with a declared type (e.g. a list where a dict or None is required): that is a
                # failed obligation of the target, not a limit of the translator; the field is left unconstrained on this path
                st.oblige("%s.value-stored-in-%s.%s-has-the-declared-type" % (self.current.key, obj.ty.name, fname), z3.BoolVal(False), getattr(node, "lineno", 0))
                hf.parts = [z3.Const(fresh_name("H_%s_%s_illtyped" % (obj.ty.name, fname)), p.sort()) for p in hf.parts]
                return
            raise
        parts = flatten(val)
        if len(parts) != len(hf.parts):
            raise Unsupported("field %s.%s: value shape mismatch" % (obj.ty.name, fname), node)
        named = []
        for q in parts:
            if z3.is_const(q) or z3.is_int_value(q):
                named.append(q)
            else:  # name compound values so later reads (and quantifier patterns over them) stay simple
                nq = z3.Const(fresh_name("w_%s_%s" % (obj.ty.name, fname)), q.sort())
                st.assume(nq == q)
                named.append(nq)
        hf.parts = [z3.Store(p, obj.z, q) for p, q in zip(hf.parts, named)]
        if isinstance(val, VList) and val.mem is not None and len(named) == 2:
            # a list whose member set is known (comprehension / concatenation result): reading the field back yields the same (length, array)
            # terms, so remember the member set for them instead of re-deriving it through index skolems (keeps set-level obligations in the array fragment)
            cache = dict(st.ghost.get("memcache", {}))
            cache[("mem", named[1].get_id(), named[0].get_id())] = val.mem
            st.ghost["memcache"] = cache

    def is_subclass(self, c: str, base: str) -> bool:
        if c == base:
            return True
        d = self.classes.get(c)
        return bool(d) and any(self.is_subclass(b, base) for b in d.bases)

    def subclasses(self, base: str) -> List[str]:
        return [c for c in self.classes if self.is_subclass(c, base)]

    def tag_of(self, st: State, obj: VScalar):
        f = self.S.func("class_tag", z3.IntSort(), z3.IntSort())
        return f(obj.z)

    def alloc(self, st: State, cls: str) -> VScalar:
        r = z3.Int(fresh_name("new_" + cls))
        al = st.ghost.setdefault("alloc", z3.Const("alloc0", z3.ArraySort(z3.IntSort(), z3.BoolSort())))
        st.assume(r >= 0)
        st.assume(z3.Not(al[r]))
        st.ghost["alloc"] = z3.Store(al, r, True)
        o = VScalar(r, T.obj(cls))
        st.assume(self.tag_of(st, o) == self.classes[cls].tag)
        return o

    def allocated(self, st: State, obj: VScalar):
        al = st.ghost.setdefault("alloc", z3.Const("alloc0", z3.ArraySort(z3.IntSort(), z3.BoolSort())))
        return al[obj.z]

    # ------------------------------------------------------------------ coercions

    def coerce(self, v: V, ty: Ty, st: State, node=None) -> V:
        """adapt a value to a declared type (None -> NONE atom, cstr -> atom, tuple<->list, wrap in opt)."""
        k = ty.kind
        if k == "any":
            return v
        if k == "opt":
            if isinstance(v, VNone):
                facts: List[Any] = []
                dummy = fresh(self.S, ty.args[0], "dummy", facts)
                return VOpt(z3.BoolVal(True), dummy, ty)
            if isinstance(v, VOpt):
                return v
            return VOpt(z3.BoolVal(False), self.coerce(v, ty.args[0], st, node), ty)
        if isinstance(v, VOpt) and k != "opt":
            if not self.feasible(st, v.is_none):
                return self.coerce(v.val, ty, st, node)  # the path condition already excludes None (e.g. `x.f is not None and ... x.f ...`)
            raise Unsupported("optional value used where %r expected" % (ty,), node)
        if k in ("atom", "oatom"):
            if isinstance(v, VStr):
                return VScalar(self.S.str_const(v.s), T.atom if k == "atom" else T.oatom)
            if isinstance(v, VNone):
                if k == "oatom":
                    return VScalar(self.S.NONE, T.oatom)
                raise Unsupported("None where str expected", node)
            if isinstance(v, VScalar) and v.ty.kind in ("atom", "oatom"):
                return VScalar(v.z, ty) if k == "oatom" or v.ty.kind == "atom" else v
        if k == "int" and isinstance(v, VPy) and isinstance(v.obj, int) and not isinstance(v.obj, bool):
            return VScalar(z3.IntVal(v.obj), T.int)
        if k == "bool" and isinstance(v, VPy) and isinstance(v.obj, bool):
            return VScalar(z3.BoolVal(v.obj), T.bool)
        if k == "list" and isinstance(v, VTuple):
            return self.tuple_to_list(v, ty, st, node)
        if k == "list" and isinstance(v, VList):
            return v
        if k == "list" and isinstance(v, (VSet, VDict)):
            return self.list_of(v, st, node)
        if k == "list" and isinstance(v, VScalar) and v.ty.kind == "obj" and self.registry.iter_view(self, st, v, node) is not None:
            return self.list_of(v, st, node)
        if k == "set" and isinstance(v, VScalar) and v.ty.kind == "obj" and self.registry.iter_view(self, st, v, node) is not None:
            return self.set_of(v, st, node)
        if k == "set" and isinstance(v, (VList, VDict)):
            return self.set_of(v, st, node)
        if k == "set" and isinstance(v, VSet):
            return v
        if k == "set" and isinstance(v, VPy) and isinstance(v.obj, tuple) and v.obj[:1] == ("emptyset",):
            return VSet(z3.K(scalar_sort(self.S, ty.args[0]), z3.BoolVal(False)), ty)
        if k in ("dict", "odict") and isinstance(v, VDict):
            if k == "odict" and v.pos is None:
                raise Unsupported("plain dict where an ordered dict is declared", node)
            return v
        if k in ("dict", "odict") and isinstance(v, VPy) and isinstance(v.obj, tuple) and v.obj[0] == "dictlit":
            ks = scalar_sort(self.S, ty.args[0])
            vs = scalar_sort(self.S, ty.args[1])
            d = VDict(z3.K(ks, z3.BoolVal(False)), z3.K(ks, z3.Const(fresh_name("dflt"), vs)), ty)
            if k == "odict":
                d = VDict(d.dom, d.val, ty, z3.K(ks, z3.IntVal(0)), z3.IntVal(0))
            for (kk, vv) in v.obj[1]:
                d = self.dict_store(d, self.as_atom(kk, st, node), vv, st, node)
            return d
        if k == "none" and isinstance(v, VNone):
            return v
        if isinstance(v, VScalar) and v.ty.kind == "opaque" and ty.kind == "opaque" and v.ty.name != ty.name:
            cast = getattr(self.registry, "opaque_casts", {}).get((v.ty.name, ty.name))
            if cast is not None:
                return VScalar(cast(self, v.z), ty)
        if isinstance(v, VScalar) and is_scalar(ty):
            if ty.kind == "obj" and v.ty.kind == "obj":
                return v
            if v.ty.kind == ty.kind or {v.ty.kind, ty.kind} <= {"atom", "oatom"}:
                return v
        raise Unsupported("cannot coerce %s to %r" % (type(v).__name__ + ":" + repr(getattr(v, "ty", "")), ty), node)

    def tuple_to_list(self, v: VTuple, ty: Ty, st: State, node=None) -> VList:
        es = scalar_sort(self.S, ty.args[0])
        arr = z3.K(z3.IntSort(), z3.Const(fresh_name("dflt"), es))
        for i, it in enumerate(v.items):
            arr = z3.Store(arr, i, self.coerce(it, ty.args[0], st, node).z)
        return VList(z3.IntVal(len(v.items)), arr, ty)

    def as_atom(self, v: V, st: State, node=None):
        if isinstance(v, VStr):
            return self.S.str_const(v.s)
        if isinstance(v, VNone):
            return self.S.NONE
        if isinstance(v, VScalar):
            return v.z
        raise Unsupported("expected scalar, got %s" % type(v).__name__, node)

    # ------------------------------------------------------------------ container views

    def set_of(self, v: V, st: State, node=None) -> VSet:
        """the set of elements of an iterable value (python set(v))."""
        if isinstance(v, VSet):
            return v
        if isinstance(v, VDict):
            return VSet(v.dom, T.set(v.ty.args[0]))
        if isinstance(v, VList):
            return VSet(self.list_mem(v, st), T.set(v.ty.args[0]))
        if isinstance(v, VTuple):
            if not v.items:
                return VSet(z3.K(self.S.Atom, z3.BoolVal(False)), T.set(T.atom))  # empty literal: column-name sets are the only untyped empties in the targets
            zs = [self.as_atom(x, st, node) for x in v.items]
            arr = z3.K(zs[0].sort(), z3.BoolVal(False))
            for z in zs:
                arr = z3.Store(arr, z, True)
            ek = "atom" if zs[0].sort() == self.S.Atom else "int"
            return VSet(arr, T.set(Ty(ek)))
        if isinstance(v, VScalar) and v.ty.kind == "obj":
            it = self.registry.iter_view(self, st, v, node)
            if it is not None:
                return self.set_of(it, st, node)
        if isinstance(v, VPy) and isinstance(v.obj, tuple) and v.obj and v.obj[0] == "values" and isinstance(v.obj[1], VDict):
            # set(d.values()): the image of the key set under the map (with a skolem pre-image for every member)
            d = v.obj[1]
            rs = d.val.sort().range()
            img = z3.Const(fresh_name("img"), z3.ArraySort(rs, z3.BoolSort()))
            pre = z3.Function(fresh_name("preimage"), rs, d.dom.sort().domain())
            k = z3.Const(fresh_name("k"), d.dom.sort().domain())
            x = z3.Const(fresh_name("x"), rs)
            st.assume(z3.ForAll([k], z3.Implies(d.dom[k], img[d.val[k]]), patterns=[d.val[k]]))
            st.assume(z3.ForAll([x], z3.Implies(img[x], z3.And(d.dom[pre(x)], d.val[pre(x)] == x)), patterns=[img[x]]))
            return VSet(img, T.set(d.ty.args[1]))
        raise Unsupported("set view of %s" % type(v).__name__, node)

    def list_mem(self, l: VList, st: State):
        """membership array of a list: mem[x] <-> exists i<n. arr[i]==x, via a skolem index."""
        if l.mem is not None:
            return l.mem
        key = ("mem", l.arr.get_id(), l.n.get_id())
        cache = st.ghost.setdefault("memcache", {})
        if key in cache:
            return cache[key]
        es = l.arr.sort().range()
        mem = z3.Const(fresh_name("mem"), z3.ArraySort(es, z3.BoolSort()))
        idx = z3.Function(fresh_name("idx"), es, z3.IntSort())
        i = z3.Int(fresh_name("i"))
        x = z3.Const(fresh_name("x"), es)
        st.assume(z3.ForAll([i], z3.Implies(z3.And(0 <= i, i < l.n), mem[l.arr[i]]), patterns=[l.arr[i]]))
        st.assume(z3.ForAll([x], z3.Implies(mem[x], z3.And(0 <= idx(x), idx(x) < l.n, l.arr[idx(x)] == x)), patterns=[mem[x]]))
        cache = dict(cache)
        cache[key] = mem
        st.ghost["memcache"] = cache
        return mem

    def list_of(self, v: V, st: State, node=None) -> VList:
        """a sequence view of an iterable (python list(v)); sets get an arbitrary duplicate-free enumeration."""
        if isinstance(v, VList):
            return v
        if isinstance(v, VTuple):
            if not v.items:
                return VList(z3.IntVal(0), z3.K(z3.IntSort(), self.S.NONE), T.list(T.atom))
            first = v.items[0]
            ety = first.ty if isinstance(first, VScalar) else T.atom
            return self.tuple_to_list(v, T.list(ety), st, node)
        if isinstance(v, (VSet, VDict)):
            arr_mem = v.arr if isinstance(v, VSet) else v.dom
            key = ("enum", arr_mem.get_id())
            cache = st.ghost.setdefault("enumcache", {})
            if key in cache:
                return cache[key]
            es = arr_mem.sort().domain()
            n = z3.Int(fresh_name("enum_n"))
            arr = z3.Const(fresh_name("enum"), z3.ArraySort(z3.IntSort(), es))
            idx = z3.Function(fresh_name("eidx"), es, z3.IntSort())
            i = z3.Int(fresh_name("i"))
            x = z3.Const(fresh_name("x"), es)
            st.assume(n >= 0)
            st.assume(z3.ForAll([i], z3.Implies(z3.And(0 <= i, i < n), z3.And(arr_mem[arr[i]], idx(arr[i]) == i)), patterns=[arr[i]]))
            st.assume(z3.ForAll([x], z3.Implies(arr_mem[x], z3.And(0 <= idx(x), idx(x) < n, arr[idx(x)] == x)), patterns=[arr_mem[x]]))
            if isinstance(v, VDict) and v.pos is not None:
                # insertion order: the enumeration is sorted by insertion stamp
                y = z3.Const(fresh_name("y"), es)
                st.assume(z3.ForAll([x, y], z3.Implies(z3.And(arr_mem[x], arr_mem[y]), (idx(x) < idx(y)) == (v.pos[x] < v.pos[y])),
                                    patterns=[z3.MultiPattern(idx(x), idx(y))]))
            ety = v.ty.args[0]
            l = VList(n, arr, T.list(ety), False, True, arr_mem)
            l.idx_fn = idx  # position of a member in this enumeration (for loop invariants over sets)
            cache = dict(cache)
            cache[key] = l
            st.ghost["enumcache"] = cache
            return l
        if isinstance(v, VScalar) and v.ty.kind == "obj":
            it = self.registry.iter_view(self, st, v, node)
            if it is not None:
                return self.list_of(it, st, node)
        raise Unsupported("sequence view of %s" % type(v).__name__, node)

    def contains(self, container: V, item: V, st: State, node=None):
        if isinstance(container, VSet):
            return container.arr[self.as_atom(item, st, node)]
        if isinstance(container, VDict):
            return container.dom[self.as_atom(item, st, node)]
        if isinstance(container, VList):
            return self.list_mem(container, st)[self.as_atom(item, st, node)]
        if isinstance(container, VTuple):
            return z3.Or(*[self.zbool(veq_safe(self, x, item, st, node)) for x in container.items]) if container.items else z3.BoolVal(False)
        if isinstance(container, VScalar) and container.ty.kind == "obj":
            it = self.registry.iter_view(self, st, container, node)
            if it is not None:
                return self.contains(it, item, st, node)
        if isinstance(container, (VScalar, VStr)) and (isinstance(container, VStr) or container.ty.kind == "atom") and \
                (isinstance(item, VStr) or (isinstance(item, VScalar) and item.ty.kind == "atom")):
            # substring test on two strings: an uninterpreted relation (nothing about string contents is assumed)
            self.registry.note("`a in b` on strings is an uninterpreted relation str_contains(b, a)")
            f = self.S.func("str_contains", self.S.Atom, self.S.Atom, z3.BoolSort())
            return f(self.as_atom(container, st, node), self.as_atom(item, st, node))
        raise Unsupported("`in` on %s" % type(container).__name__, node)

    # ------------------------------------------------------------------ statements

    def exec_block(self, stmts: List[ast.stmt], st: State) -> List[Tuple[State, Any]]:
        """returns list of (state, outcome); outcome None = fell through."""
        states: List[Tuple[State, Any]] = [(st, None)]
        for s in stmts:
            nxt: List[Tuple[State, Any]] = []
            for (cur, out) in states:
                if out is not None:
                    nxt.append((cur, out))
                    continue
                nxt.extend(self.exec_stmt(s, cur))
            states = nxt
        return states

    def exec_stmt(self, s: ast.stmt, st: State) -> List[Tuple[State, Any]]:
        m = getattr(self, "stmt_" + type(s).__name__, None)
        if m is None:
            raise Unsupported("statement %s" % type(s).__name__, s)
        return m(s, st)

    def stmt_Pass(self, s, st):
        return [(st, None)]

    def stmt_Expr(self, s, st):
        if isinstance(s.value, ast.Constant):
            return [(st, None)]  # docstring
        out = []
        for (st2, v) in self.ev(s.value, st):
            out.append((st2, ("raise", v) if isinstance(v, Raised) else None))
        return out

    def stmt_Return(self, s, st):
        if s.value is None:
            return [(st, ("return", VNone()))]
        out = []
        for (st2, v) in self.ev(s.value, st):
            out.append((st2, ("raise", v) if isinstance(v, Raised) else ("return", v)))
        return out

    def stmt_Raise(self, s, st):
        name = "Exception"
        if s.exc is not None:
            e = s.exc
            if isinstance(e, ast.Call):
                e = e.func
            name = e.attr if isinstance(e, ast.Attribute) else getattr(e, "id", "Exception")
        return [(st, ("raise", Raised(name)))]

    def refine_optional(self, test, t, f):
        """`x is None` / `x is not None` on a local holding an optional value: unwrap it on the not-None side.
        `isinstance(x, C)` on a local object: on the true side x is known to be a C (downcast of the static type)."""
        if isinstance(test, ast.Call) and isinstance(test.func, ast.Name) and test.func.id == "isinstance" and len(test.args) == 2 \
                and isinstance(test.args[0], ast.Name) and t is not None:
            cname = self.dotted(test.args[1])
            cname = cname.split(".")[-1] if cname else None
            v = t.env.get(test.args[0].id)
            if cname in self.classes and isinstance(v, VScalar) and v.ty.kind == "obj" and self.is_subclass(cname, v.ty.name):
                t.env[test.args[0].id] = VScalar(v.z, T.obj(cname))
        if isinstance(test, ast.Compare) and len(test.ops) == 1 and isinstance(test.left, ast.Name) and isinstance(test.comparators[0], ast.Constant) and test.comparators[0].value is None:
            nm = test.left.id
            notnone_side, none_side = (t, f) if isinstance(test.ops[0], ast.IsNot) else ((f, t) if isinstance(test.ops[0], ast.Is) else (None, None))
            if notnone_side is not None and isinstance(notnone_side.env.get(nm), VOpt):
                notnone_side.env[nm] = notnone_side.env[nm].val
            if none_side is not None and isinstance(none_side.env.get(nm), VOpt):
                none_side.env[nm] = VNone()

    def stmt_Assert(self, s, st):
        out = []
        for (st2, v) in self.ev(s.test, st):
            if isinstance(v, Raised):
                out.append((st2, ("raise", v)))
                continue
            c = self.truth(v, st2, s)
            t, f = self.branch(st2, c, s)
            self.refine_optional(s.test, t, f)
            if t is not None:
                out.append((t, None))
            if f is not None:
                out.append((f, ("raise", Raised("AssertionError"))))
        return out

    def stmt_If(self, s, st):
        out = []
        for (st2, v) in self.ev(s.test, st):
            if isinstance(v, Raised):
                out.append((st2, ("raise", v)))
                continue
            c = self.truth(v, st2, s)
            t, f = self.branch(st2, c, s)
            self.refine_optional(s.test, t, f)
            if t is not None:
                out.extend(self.exec_block(s.body, t))
            if f is not None:
                out.extend(self.exec_block(s.orelse, f) if s.orelse else [(f, None)])
        return out

    def stmt_Assign(self, s, st):
        out = []
        for (st2, v) in self.ev(s.value, st):
            if isinstance(v, Raised):
                out.append((st2, ("raise", v)))
                continue
            cur = [(st2, None)]
            for tgt in s.targets:
                nxt = []
                for (st3, o) in cur:
                    if o is not None:
                        nxt.append((st3, o))
                    else:
                        nxt.extend(self.assign(tgt, v, st3, s.value))
                cur = nxt
            out.extend(cur)
        return out

    def stmt_AnnAssign(self, s, st):
        if s.value is None:
            return [(st, None)]
        fake = ast.Assign(targets=[s.target], value=s.value)
        ast.copy_location(fake, s)
        return self.stmt_Assign(fake, st)

    def stmt_AugAssign(self, s, st):
        load = copy.deepcopy(s.target)
        for n in ast.walk(load):
            if hasattr(n, "ctx"):
                n.ctx = ast.Load()
        fake = ast.Assign(targets=[s.target], value=ast.BinOp(left=load, op=s.op, right=s.value))
        ast.copy_location(fake, s)
        ast.fix_missing_locations(fake)
        return self.stmt_Assign(fake, st)

    def stmt_FunctionDef(self, s, st):
        st.env[s.name] = VPy(("localdef", s))
        return [(st, None)]

    def stmt_Import(self, s, st):
        return [(st, None)]

    stmt_ImportFrom = stmt_Import

    def stmt_Delete(self, s, st):
        out = [(st, None)]
        for tgt in s.targets:
            if not isinstance(tgt, ast.Subscript):
                raise Unsupported("del of non-subscript", s)
            nxt = []
            for (st1, o) in out:
                if o is not None:
                    nxt.append((st1, o))
                    continue
                for (st2, cont) in self.ev(tgt.value, st1):
                    for (st3, key) in self.ev(tgt.slice, st2):
                        if not isinstance(cont, VDict):
                            raise Unsupported("del on %s" % type(cont).__name__, s)
                        k = self.as_atom(key, st3, s)
                        t, f = self.branch(st3, cont.dom[k], s)
                        if t is not None:
                            nd = self.dict_remove(cont, k, t)
                            nxt.extend(self.store_back(tgt.value, nd, t, s))
                        if f is not None:
                            nxt.append((f, ("raise", Raised("KeyError"))))
            out = nxt
        return out

    def stmt_Try(self, s, st):
        if s.finalbody or s.orelse:
            raise Unsupported("try with else/finally", s)
        caught = []
        for h in s.handlers:
            if h.type is None:
                caught.append((None, h))
            elif isinstance(h.type, ast.Name):
                caught.append((h.type.id, h))
            elif isinstance(h.type, ast.Tuple):
                for e in h.type.elts:
                    caught.append((getattr(e, "id", None), h))
            else:
                raise Unsupported("except clause form", s)
        out = []
        for (st2, o) in self.exec_block(s.body, st):
            if o is not None and o[0] == "raise":
                exc = o[1].exc
                h = next((hh for (nm, hh) in caught if nm is None or nm == exc or nm == "Exception"), None)
                if h is not None:
                    out.extend(self.exec_block(h.body, st2))
                    continue
            out.append((st2, o))
        return out

    def stmt_Break(self, s, st):
        return [(st, ("break",))]

    def stmt_Continue(self, s, st):
        return [(st, ("continue",))]

    def stmt_While(self, s, st):
        """while cond: body  -- cut at the sidecar invariant (partial correctness; `i` of the LoopCtx is unused)."""
        if s.orelse:
            raise Unsupported("while/else", s)
        ordinal = self.loop_ordinal(s)
        inv = self.current.loops.get(ordinal) if self.current else None
        if inv is None:
            raise Unsupported("loop %d has no invariant in the sidecar" % ordinal, s)
        from .contracts import LoopCtx

        body_names = self.assigned_names(s.body)
        fields = self.written_fields(s.body, st)
        self._reassigned = {n.id for n in ast.walk(ast.Module(body=list(s.body), type_ignores=[])) if isinstance(n, ast.Name) and isinstance(n.ctx, (ast.Store, ast.Del))}
        pre = st.fork()
        pre_heap = st.heap_snapshot()
        zero = z3.IntVal(0)
        for (nm, f) in inv(LoopCtx(self, st, zero, zero, None, pre, pre_heap)):
            st.oblige("%s.loop%d.init.%s" % (self.current.key, ordinal, nm), f, s.lineno)
        out = []
        it = st.fork()
        self.havoc(it, body_names, fields, s)
        for (nm, f) in inv(LoopCtx(self, it, zero, zero, None, pre, pre_heap)):
            it.assume(f)
        for (s1, cv) in self.ev(s.test, it):
            if isinstance(cv, Raised):
                out.append((s1, ("raise", cv)))
                continue
            t, f = self.branch(s1, self.truth(cv, s1, s), s)
            if t is not None:
                for (b1, o1) in self.exec_block(s.body, t):
                    if o1 is None or o1[0] == "continue":
                        for (nm, ff) in inv(LoopCtx(self, b1, zero, zero, None, pre, pre_heap)):
                            b1.oblige("%s.loop%d.preserve.%s" % (self.current.key, ordinal, nm), ff, s.lineno)
                    elif o1[0] == "break":
                        out.append((b1, None))
                    else:
                        out.append((b1, o1))
            if f is not None:
                out.append((f, None))  # exit: invariant and negated condition hold
        return out

    # ---- for loops

    def stmt_For(self, s: ast.For, st: State):
        if s.orelse:
            raise Unsupported("for/else", s)
        out = []
        for (st2, itv) in self.ev_iter(s.iter, st):
            if isinstance(itv, Raised):
                out.append((st2, ("raise", itv)))
                continue
            if isinstance(itv, VTuple) or (isinstance(itv, VPy) and isinstance(itv.obj, range)):
                items = itv.items if isinstance(itv, VTuple) else [VPy(i) for i in itv.obj]
                out.extend(self.unrolled_for(s, items, st2))
            else:
                out.extend(self.invariant_for(s, itv, st2))
        return out

    def ev_iter(self, node, st):
        """evaluate the iterable of a for/comprehension; zip(...) becomes ('zip', [lists])."""
        if isinstance(node, ast.Call) and isinstance(node.func, ast.Name) and node.func.id == "zip":
            res = [(st, [])]
            for a in node.args:
                nxt = []
                for (s1, acc) in res:
                    for (s2, v) in self.ev(a, s1):
                        nxt.append((s2, acc + [v]))
                res = nxt
            out = []
            for (s1, acc) in res:
                bad = next((x for x in acc if isinstance(x, Raised)), None)
                out.append((s1, bad if bad else VPy(("zip", acc))))
            return out
        if isinstance(node, ast.Call) and isinstance(node.func, ast.Name) and node.func.id == "range":
            out = []
            for (s1, args) in self.ev_list(node.args, st):
                if all(isinstance(a, VPy) for a in args):
                    out.append((s1, VPy(range(*[a.obj for a in args]))))
                elif len(args) == 1:
                    out.append((s1, VPy(("range", self.coerce(args[0], T.int, s1, node)))))
                else:
                    raise Unsupported("symbolic range with start", node)
            return out
        return self.ev(node, st)

    def unrolled_for(self, s, items, st):
        states = [(st, None)]
        for it in items:
            nxt = []
            for (cur, o) in states:
                if o is not None:
                    nxt.append((cur, o))
                    continue
                for (c2, o2) in self.assign(s.target, it, cur, s):
                    if o2 is not None:
                        nxt.append((c2, o2))
                        continue
                    for (c3, o3) in self.exec_block(s.body, c2):
                        if o3 is not None and o3[0] == "continue":
                            o3 = None
                        nxt.append((c3, o3))
            states = nxt
        return [(c, None if (o is not None and o[0] == "break") else o) for (c, o) in states]

    def iteration_view(self, itv, st, node):
        """-> (n, elem_at(i) -> V, descr) for a symbolic iterable."""
        if isinstance(itv, VPy) and isinstance(itv.obj, tuple) and itv.obj[0] == "zip":
            lists = [self.list_of(x, st, node) for x in itv.obj[1]]
            n = lists[0].n
            for l in lists[1:]:
                # python zip stops at the shortest; the contracts require equal lengths
                st.oblige("zip-equal-lengths@line%d" % node.lineno, l.n == n, node.lineno)
                st.assume(l.n == n)
            return n, (lambda i: VTuple([VScalar(l.arr[i], l.ty.args[0]) for l in lists])), lists
        if isinstance(itv, VPy) and isinstance(itv.obj, tuple) and itv.obj[0] == "range":
            n = itv.obj[1].z
            st.assume(n >= 0) if False else None
            return z3.If(n >= 0, n, 0), (lambda i: VScalar(i, T.int)), None
        if isinstance(itv, VPy) and isinstance(itv.obj, tuple) and itv.obj[0] == "items":
            d = itv.obj[1]
            l = self.list_of(d, st, node)
            return l.n, (lambda i: VTuple([VScalar(l.arr[i], l.ty.args[0]), VScalar(d.val[l.arr[i]], d.ty.args[1])])), l
        if isinstance(itv, VPy) and isinstance(itv.obj, tuple) and itv.obj[0] == "values":
            d = itv.obj[1]
            l = self.list_of(d, st, node)
            return l.n, (lambda i: VScalar(d.val[l.arr[i]], d.ty.args[1])), l
        l = self.list_of(itv, st, node)
        return l.n, (lambda i: VScalar(l.arr[i], l.ty.args[0])), l

    def assigned_names(self, stmts) -> List[str]:
        names = []
        for n in ast.walk(ast.Module(body=list(stmts), type_ignores=[])):
            if isinstance(n, ast.Name) and isinstance(n.ctx, (ast.Store, ast.Del)):
                names.append(n.id)
            if isinstance(n, ast.Call) and isinstance(n.func, ast.Attribute) and isinstance(n.func.value, ast.Name):
                if n.func.attr in MUTATING["set"] | MUTATING["list"] | MUTATING["dict"]:
                    names.append(n.func.value.id)
            if isinstance(n, (ast.Subscript,)) and isinstance(n.ctx, ast.Store) and isinstance(n.value, ast.Name):
                names.append(n.value.id)
            if isinstance(n, ast.Call):
                # a callee whose contract declares that it mutates a container argument in place: the variable passed there is (re)written
                fname = n.func.attr if isinstance(n.func, ast.Attribute) else getattr(n.func, "id", None)
                for c in (self.registry.contracts_named(fname) if fname else []):
                    for kw in n.keywords:
                        if kw.arg in getattr(c, "mutates_args", ()) and isinstance(kw.value, ast.Name):
                            names.append(kw.value.id)
        return sorted(set(names))

    def written_fields(self, stmts, st) -> List[Tuple[str, str]]:
        """heap fields a loop body may write (syntactic, plus `modifies` of called contracts)."""
        fields = set()
        for n in ast.walk(ast.Module(body=list(stmts), type_ignores=[])):
            attr = None
            if isinstance(n, ast.Attribute) and isinstance(n.ctx, ast.Store):
                attr = n.attr
            if isinstance(n, ast.Subscript) and isinstance(n.ctx, ast.Store) and isinstance(n.value, ast.Attribute):
                attr = n.value.attr
            if isinstance(n, ast.Call) and isinstance(n.func, ast.Attribute):
                if isinstance(n.func.value, ast.Attribute) and n.func.attr in MUTATING["set"] | MUTATING["list"] | MUTATING["dict"]:
                    attr = n.func.value.attr
                for c in self.registry.contracts_named(n.func.attr):
                    fields |= set(c.modifies)
            if isinstance(n, ast.Call) and isinstance(n.func, ast.Name):
                for c in self.registry.contracts_named(n.func.id):
                    fields |= set(c.modifies)
            if attr is not None:
                for cname, cd in self.classes.items():
                    if attr in cd.fields:
                        fields.add((cname, attr))
        return sorted(fields)

    def havoc(self, st: State, names: List[str], fields: List[Tuple[str, str]], node=None) -> None:
        reassigned = set(getattr(self, "_reassigned", set()))
        for nm in names:
            if nm in st.env:
                v = st.env[nm]
                if isinstance(v, VScalar) and v.ty.kind == "obj" and nm not in reassigned:
                    continue  # a method call on an object mutates the heap, not the variable
                if isinstance(v, (VPy, VStr, VNone, VTuple)):
                    if isinstance(v, VTuple):
                        raise Unsupported("loop reassigns tuple-valued variable %s" % nm, node)
                    if isinstance(v, (VPy, VStr)):
                        raise Unsupported("loop reassigns concrete variable %s" % nm, node)
                    continue
                facts: List[Any] = []
                nv = fresh(self.S, v.ty, nm + "_h", facts)
                for f in facts:
                    st.assume(f)
                st.env[nm] = nv
        for key in fields:
            hf = self.heap_field(st, key[0], key[1])
            hf.parts = [z3.Const(fresh_name("H_%s_%s_h" % key), p.sort()) for p in hf.parts]

    def invariant_for(self, s: ast.For, itv, st: State):
        ordinal = self.loop_ordinal(s)
        inv = self.current.loops.get(ordinal) if self.current else None
        if inv is None:
            raise Unsupported("loop %d has no invariant in the sidecar" % ordinal, s)
        n, elem_at, seqinfo = self.iteration_view(itv, st, s)
        from .contracts import LoopCtx

        body_names = [x for x in self.assigned_names(s.body + [ast.Expr(value=s.target)]) if True]
        tgt_names = [x.id for x in ast.walk(s.target) if isinstance(x, ast.Name)]
        fields = self.written_fields(s.body, st)
        self._reassigned = {n.id for n in ast.walk(ast.Module(body=list(s.body), type_ignores=[])) if isinstance(n, ast.Name) and isinstance(n.ctx, (ast.Store, ast.Del))}
        pre = st.fork()
        pre_heap = st.heap_snapshot()
        # 1. initialisation
        for (nm, f) in inv(LoopCtx(self, st, z3.IntVal(0), n, seqinfo, pre, pre_heap)):
            st.oblige("%s.loop%d.init.%s" % (self.current.key, ordinal, nm), f, s.lineno)
        out = []
        # 2. preservation for an arbitrary iteration
        it = st.fork()
        self.havoc(it, [x for x in body_names if x not in tgt_names], fields, s)
        i = z3.Int(fresh_name("iter"))
        it.assume(z3.And(0 <= i, i < n))
        for (nm, f) in inv(LoopCtx(self, it, i, n, seqinfo, pre, pre_heap)):
            it.assume(f)
        for (b0, o0) in self.assign(s.target, elem_at(i), it, s):
            if o0 is not None:
                out.append((b0, o0))
                continue
            for (b1, o1) in self.exec_block(s.body, b0):
                if o1 is None or o1[0] == "continue":
                    for (nm, f) in inv(LoopCtx(self, b1, i + 1, n, seqinfo, pre, pre_heap)):
                        b1.oblige("%s.loop%d.preserve.%s" % (self.current.key, ordinal, nm), f, s.lineno)
                elif o1[0] == "break":
                    out.append((b1, None))
                else:
                    out.append((b1, o1))
        # 3. exit
        ex = st.fork()
        self.havoc(ex, [x for x in body_names if x not in tgt_names], fields, s)
        for (nm, f) in inv(LoopCtx(self, ex, n, n, seqinfo, pre, pre_heap)):
            ex.assume(f)
        out.append((ex, None))
        return out

    def loop_ordinal(self, s) -> int:
        loops = [n for n in ast.walk(self.current.node) if isinstance(n, (ast.For, ast.While))]
        loops.sort(key=lambda n: (n.lineno, n.col_offset))
        return loops.index(s)

    # ---- assignment

    def assign(self, tgt, v: V, st: State, node=None) -> List[Tuple[State, Any]]:
        if isinstance(tgt, ast.Name):
            lt = getattr(self.current, "local_types", None) or {}
            if tgt.id in lt and isinstance(v, VPy) and isinstance(v.obj, tuple) and v.obj[:1] in (("emptyset",), ("dictlit",)):
                v = self.coerce(v, lt[tgt.id], st, tgt)
            elif tgt.id in lt and isinstance(v, VTuple) and not v.items and lt[tgt.id].kind == "list":
                v = self.list_of(VTuple([], is_list=True), st, tgt)  # a declared, initially empty list that a loop appends to
                v = VList(v.n, z3.K(z3.IntSort(), self.S.NONE) if lt[tgt.id].args[0].kind in ("atom", "oatom") else v.arr, lt[tgt.id])
            st.env[tgt.id] = v
            if isinstance(node, ast.Name) and isinstance(v, (VSet, VList, VDict)):
                raise Unsupported("aliasing a mutable container (%s = %s)" % (tgt.id, node.id), tgt)
            # x = obj.field / x = d[k]: the local names the SAME container object; a later in-place mutation of x must
            # reach that holder too (python aliasing), see store_back
            if isinstance(node, (ast.Attribute, ast.Subscript)) and isinstance(v, (VSet, VList, VDict)):
                st.alias = dict(st.alias)
                st.alias[tgt.id] = node
            elif tgt.id in st.alias:
                st.alias = {k: a for k, a in st.alias.items() if k != tgt.id}
            return [(st, None)]
        if isinstance(tgt, (ast.Tuple, ast.List)):
            if isinstance(v, VTuple):
                if len(v.items) != len(tgt.elts):
                    return [(st, ("raise", Raised("ValueError")))]
                cur = [(st, None)]
                for t, x in zip(tgt.elts, v.items):
                    nxt = []
                    for (s1, o) in cur:
                        nxt.extend(self.assign(t, x, s1) if o is None else [(s1, o)])
                    cur = nxt
                return cur
            raise Unsupported("unpacking of %s" % type(v).__name__, tgt)
        if isinstance(tgt, ast.Attribute):
            out = []
            for (s1, o) in self.ev(tgt.value, st):
                if isinstance(o, Raised):
                    out.append((s1, ("raise", o)))
                    continue
                if not (isinstance(o, VScalar) and o.ty.kind == "obj"):
                    raise Unsupported("attribute store on %s" % type(o).__name__, tgt)
                if not self.has_field(o.ty.name, tgt.attr):
                    # field not modelled by the sidecar: the write is recorded as ignored
                    s1.trace.append("ignored write to unmodelled field %s.%s" % (o.ty.name, tgt.attr))
                    out.append((s1, None))
                    continue
                self.write_field(s1, o, tgt.attr, v, tgt)
                out.append((s1, None))
            return out
        if isinstance(tgt, ast.Subscript):
            out = []
            for (s1, cont) in self.ev(tgt.value, st):
                if isinstance(cont, Raised):
                    out.append((s1, ("raise", cont)))
                    continue
                for (s2, key) in self.ev(tgt.slice, s1):
                    if isinstance(key, Raised):
                        out.append((s2, ("raise", key)))
                        continue
                    if isinstance(cont, VDict):
                        nd = self.dict_store(cont, self.as_atom(key, s2, tgt), v, s2, tgt)
                        out.extend(self.store_back(tgt.value, nd, s2, tgt))
                    elif isinstance(cont, VList):
                        idx = self.coerce(key, T.int, s2, tgt).z
                        t, f = self.branch(s2, z3.And(0 <= idx, idx < cont.n), tgt)
                        if t is not None:
                            nl = VList(cont.n, z3.Store(cont.arr, idx, self.coerce(v, cont.ty.args[0], t, tgt).z), cont.ty)
                            out.extend(self.store_back(tgt.value, nl, t, tgt))
                        if f is not None:
                            out.append((f, ("raise", Raised("IndexError"))))
                    elif isinstance(cont, VTuple) and cont.is_list and isinstance(key, VPy) and isinstance(key.obj, int) and 0 <= key.obj < len(cont.items):
                        items = list(cont.items)
                        items[key.obj] = v
                        out.extend(self.store_back(tgt.value, VTuple(items, is_list=True), s2, tgt))
                    else:
                        raise Unsupported("subscript store on %s" % type(cont).__name__, tgt)
            return out
        raise Unsupported("assignment target %s" % type(tgt).__name__, tgt)

    def store_back(self, lv, newval: V, st: State, node=None) -> List[Tuple[State, Any]]:
        """write an updated container back to the l-value expression it was read from."""
        if isinstance(lv, ast.Name):
            st.env[lv.id] = newval
            holder = st.alias.get(lv.id)
            if holder is not None:
                h2 = copy.copy(holder)
                h2.ctx = ast.Store()
                out = []
                for (s1, o) in self.assign(h2, newval, st, None):
                    s1.alias = dict(s1.alias)
                    s1.alias[lv.id] = holder  # writing the holder must not drop the alias
                    out.append((s1, o))
                return out
            return [(st, None)]
        if isinstance(lv, ast.Attribute):
            lv2 = copy.copy(lv)
            lv2.ctx = ast.Store()
            return self.assign(lv2, newval, st, None)
        if isinstance(lv, ast.Subscript):
            lv2 = copy.copy(lv)
            lv2.ctx = ast.Store()
            return self.assign(lv2, newval, st, None)
        raise Unsupported("mutation of a temporary container", node)

    def dict_store(self, d: VDict, k, v: V, st: State, node=None) -> VDict:
        if d.ty.args[1].kind == "set":
            vz = self.set_of(v, st, node).arr  # dict of sets: the stored value is the set's characteristic array (a snapshot: later in-place updates of the set are not tracked)
        else:
            vz = self.coerce(v, d.ty.args[1], st, node).z
        if d.pos is None:
            return VDict(z3.Store(d.dom, k, True), z3.Store(d.val, k, vz), d.ty)
        present = d.dom[k]
        npos = z3.If(present, d.pos, z3.Store(d.pos, k, d.n))
        nn = z3.If(present, d.n, d.n + 1)
        return VDict(z3.Store(d.dom, k, True), z3.Store(d.val, k, vz), d.ty, npos, nn)

    def dict_remove(self, d: VDict, k, st: State) -> VDict:
        if d.pos is None:
            return VDict(z3.Store(d.dom, k, False), d.val, d.ty)
        # removal leaves a gap in the insertion stamps; relative order of the rest is untouched
        return VDict(z3.Store(d.dom, k, False), d.val, d.ty, d.pos, d.n)

    # ------------------------------------------------------------------ expressions

    def ev_list(self, nodes, st) -> List[Tuple[State, Any]]:
        res = [(st, [])]
        for a in nodes:
            nxt = []
            for (s1, acc) in res:
                if acc and isinstance(acc[-1], Raised):
                    nxt.append((s1, acc))
                    continue
                for (s2, v) in self.ev(a, s1):
                    nxt.append((s2, acc + [v]))
            res = nxt
        return res

    def ev(self, e: ast.expr, st: State) -> List[Tuple[State, Any]]:
        m = getattr(self, "ex_" + type(e).__name__, None)
        if m is None:
            raise Unsupported("expression %s" % type(e).__name__, e)
        return m(e, st)

    def ex_Constant(self, e, st):
        v = e.value
        if v is None:
            return [(st, VNone())]
        if isinstance(v, str):
            return [(st, VStr(v))]
        if isinstance(v, (bool, int)):
            return [(st, VPy(v))]
        raise Unsupported("constant %r" % (v,), e)

    def ex_Name(self, e, st):
        if e.id in st.env:
            return [(st, st.env[e.id])]
        if e.id in ("True", "False"):
            return [(st, VPy(e.id == "True"))]
        if e.id in self.classes or self.registry.is_global(e.id):
            return [(st, VPy(("global", e.id)))]
        return [(st, VPy(("global", e.id)))]

    def dotted(self, e) -> Optional[str]:
        parts = []
        while isinstance(e, ast.Attribute):
            parts.append(e.attr)
            e = e.value
        if isinstance(e, ast.Name):
            parts.append(e.id)
            return ".".join(reversed(parts))
        return None

    def ex_Attribute(self, e, st):
        d = self.dotted(e)
        if d is not None and d.split(".")[0] not in st.env:
            return [(st, VPy(("global", d)))]
        out = []
        for (s1, o) in self.ev(e.value, st):
            if isinstance(o, Raised):
                out.append((s1, o))
                continue
            if isinstance(o, VOpt) and isinstance(o.val, VScalar) and o.val.ty.kind == "obj" and self.has_field(o.val.ty.name, e.attr):
                # attribute of an Optional[object]: None has no such attribute
                isn, notn = self.branch(s1, o.is_none, e)
                if isn is not None:
                    out.append((isn, Raised("AttributeError")))
                if notn is not None:
                    out.append((notn, self.read_field(notn, o.val, e.attr)))
                continue
            if isinstance(o, VNone):
                out.append((s1, Raised("AttributeError")))
                continue
            if isinstance(o, VScalar) and o.ty.kind == "obj":
                if self.has_field(o.ty.name, e.attr):
                    out.append((s1, self.read_field(s1, o, e.attr)))
                else:
                    out.append((s1, VPy(("boundmethod", o, e.attr))))
                continue
            if isinstance(o, VScalar) and o.ty.kind == "opaque":
                r = self.registry.opaque_attr(self, s1, o, e.attr, e)
                if r is not None:
                    out.append((s1, r))
                    continue
            out.append((s1, VPy(("boundmethod", o, e.attr))))
        return out

    def ex_Tuple(self, e, st):
        out = []
        for (s1, items) in self.ev_list(e.elts, st):
            bad = next((x for x in items if isinstance(x, Raised)), None)
            out.append((s1, bad if bad else VTuple(items, is_list=isinstance(e, ast.List))))
        return out

    ex_List = ex_Tuple

    def ex_Set(self, e, st):
        out = []
        for (s1, items) in self.ev_list(e.elts, st):
            out.append((s1, self.set_of(VTuple(items), s1, e)))
        return out

    def ex_Dict(self, e, st):
        if e.keys:
            out = []
            for (s1, ks) in self.ev_list(e.keys, st):
                for (s2, vs) in self.ev_list(e.values, s1):
                    out.append((s2, VPy(("dictlit", list(zip(ks, vs))))))
            return out
        return [(st, VPy(("dictlit", [])))]

    def ex_JoinedStr(self, e, st):
        """f-string: an injective function of its skeleton and the formatted pieces (assumption, §3.6-7)."""
        skeleton = []
        pieces = []
        for v in e.values:
            if isinstance(v, ast.Constant):
                skeleton.append(str(v.value))
            else:
                skeleton.append("{}")
                pieces.append(v.value)
        out = []
        for (s1, vals) in self.ev_list(pieces, st):
            bad = next((x for x in vals if isinstance(x, Raised)), None)
            if bad:
                out.append((s1, bad))
                continue
            out.append((s1, self.registry.fstring(self, s1, "".join(skeleton), vals, e)))
        return out

    def ex_IfExp(self, e, st):
        out = []
        for (s1, c) in self.ev(e.test, st):
            if isinstance(c, Raised):
                out.append((s1, c))
                continue
            cz = self.truth(c, s1, e)
            t, f = self.branch(s1, cz, e)
            if t is not None:
                out.extend(self.ev(e.body, t))
            if f is not None:
                out.extend(self.ev(e.orelse, f))
        return out

    def ex_BoolOp(self, e, st):
        # short-circuit by forking; the value is the truth value (callers only test it)
        is_and = isinstance(e.op, ast.And)
        res = [(st, None)]
        done = []
        for idx, sub in enumerate(e.values):
            nxt = []
            for (s1, _) in res:
                for (s2, v) in self.ev(sub, s1):
                    if isinstance(v, Raised):
                        done.append((s2, v))
                        continue
                    if idx == len(e.values) - 1:
                        done.append((s2, v))
                        continue
                    c = self.truth(v, s2, e)
                    t, f = self.branch(s2, c, e)
                    if is_and:
                        if f is not None:
                            done.append((f, VPy(False)))
                        if t is not None:
                            nxt.append((t, None))
                    else:
                        if t is not None:
                            done.append((t, VPy(True)) if not isinstance(v, (VSet, VList, VDict, VOpt, VScalar)) or v.ty.kind == "bool" else (t, v))
                        if f is not None:
                            nxt.append((f, None))
            res = nxt
        return done

    def ex_UnaryOp(self, e, st):
        out = []
        for (s1, v) in self.ev(e.operand, st):
            if isinstance(v, Raised):
                out.append((s1, v))
            elif isinstance(e.op, ast.Not):
                c = self.truth(v, s1, e)
                out.append((s1, VPy(not c) if isinstance(c, bool) else VScalar(z3.Not(c), T.bool)))
            elif isinstance(e.op, ast.USub):
                if isinstance(v, VPy):
                    out.append((s1, VPy(-v.obj)))
                else:
                    out.append((s1, VScalar(-self.coerce(v, T.int, s1, e).z, T.int)))
            else:
                raise Unsupported("unary op", e)
        return out

    def ex_Compare(self, e, st):
        if len(e.ops) != 1:
            raise Unsupported("comparison chain", e)
        op = e.ops[0]
        special = self.dup_idiom(e, st)
        if special is not None:
            return special
        special = self.len_const_idiom(e, st)
        if special is not None:
            return special
        out = []
        for (s1, a) in self.ev(e.left, st):
            if isinstance(a, Raised):
                out.append((s1, a))
                continue
            for (s2, b) in self.ev(e.comparators[0], s1):
                if isinstance(b, Raised):
                    out.append((s2, b))
                    continue
                if isinstance(op, (ast.Eq, ast.NotEq)) and (self.is_objish(a) or self.is_objish(b)):
                    out.extend(self.obj_equal(a, b, s2, e, negate=isinstance(op, ast.NotEq)))
                    continue
                out.append((s2, self.compare(op, a, b, s2, e)))
        return out

    def is_objish(self, v) -> bool:
        if isinstance(v, VOpt):
            v = v.val
        return isinstance(v, VScalar) and v.ty.kind == "obj"

    def obj_equal(self, a: V, b: V, st: State, node, negate: bool):
        """== / != on user objects goes through the class's __eq__ contract (None only equals None)."""
        from .contracts import apply_contract
        cases = [(st, a, b)]
        out = []
        # split optional operands
        for side in (0, 1):
            nxt = []
            for (s1, x, y) in cases:
                v = (x, y)[side]
                if isinstance(v, VOpt):
                    t, f = self.branch(s1, v.is_none, node)
                    if t is not None:
                        nxt.append((t, VNone(), y) if side == 0 else (t, x, VNone()))
                    if f is not None:
                        nxt.append((f, v.val, y) if side == 0 else (f, x, v.val))
                else:
                    nxt.append((s1, x, y))
            cases = nxt
        for (s1, x, y) in cases:
            if isinstance(x, VNone) or isinstance(y, VNone):
                r = isinstance(x, VNone) and isinstance(y, VNone)
                out.append((s1, VPy(r != negate)))
                continue
            if not (isinstance(x, VScalar) and x.ty.kind == "obj"):
                out.append((s1, VPy(False != negate)))  # e.g. str == object
                continue
            c = self.registry.method_contract(self, x.ty.name, "__eq__")
            if c is None:
                raise Unsupported("== on %s objects without an __eq__ contract" % x.ty.name, node)
            for (s2, r) in apply_contract(self, s1, c, [y], {}, node, self_obj=x):
                if isinstance(r, Raised):
                    out.append((s2, r))
                elif isinstance(r, VPy):
                    out.append((s2, VPy(bool(r.obj) != negate)))
                else:
                    out.append((s2, VScalar(z3.Not(r.z) if negate else r.z, T.bool)))
        return out

    def len_const_idiom(self, e, st):
        """len(X) <op> 0|1 on a set/dict  ->  (non)emptiness, without a cardinality term."""
        l, r, op = e.left, e.comparators[0], e.ops[0]
        if not (isinstance(l, ast.Call) and isinstance(l.func, ast.Name) and l.func.id == "len" and len(l.args) == 1):
            return None
        if not (isinstance(r, ast.Constant) and r.value in (0, 1) and not isinstance(r.value, bool)):
            return None
        table = {(ast.Gt, 0): True, (ast.GtE, 1): True, (ast.NotEq, 0): True, (ast.LtE, 0): False, (ast.Lt, 1): False, (ast.Eq, 0): False}
        want = table.get((type(op), r.value))
        if want is None:
            return None
        out = []
        for (s1, v) in self.ev(l.args[0], st):
            if isinstance(v, Raised):
                out.append((s1, v))
                continue
            if isinstance(v, (VSet, VDict)):
                ne = self.nonempty(v.arr if isinstance(v, VSet) else v.dom)
                out.append((s1, VScalar(ne if want else z3.Not(ne), T.bool)))
            elif isinstance(v, VList):
                out.append((s1, VScalar(v.n > 0 if want else v.n <= 0, T.bool)))
            elif isinstance(v, VTuple):
                out.append((s1, VPy((len(v.items) > 0) == want)))
            elif isinstance(v, VScalar) and v.ty.kind == "obj":
                ne = self.nonempty(self.set_of(v, s1, e).arr)
                out.append((s1, VScalar(ne if want else z3.Not(ne), T.bool)))
            else:
                return None
        return out

    def dup_idiom(self, e, st):
        """len(X) ==/!= len(set(X))  -> duplicate-freeness of the list X."""
        def is_len_of(n):
            return isinstance(n, ast.Call) and isinstance(n.func, ast.Name) and n.func.id == "len" and len(n.args) == 1
        l, r = e.left, e.comparators[0]
        if not (is_len_of(l) and is_len_of(r)) or not isinstance(e.ops[0], (ast.Eq, ast.NotEq)):
            return None
        def is_set_of(n, inner):
            return isinstance(n, ast.Call) and isinstance(n.func, ast.Name) and n.func.id == "set" and len(n.args) == 1 and ast.dump(n.args[0]) == ast.dump(inner)
        if is_set_of(r.args[0], l.args[0]):
            base = l.args[0]
        elif is_set_of(l.args[0], r.args[0]):
            base = r.args[0]
        else:
            return None
        out = []
        for (s1, v) in self.ev(base, st):
            if isinstance(v, Raised):
                out.append((s1, v))
                continue
            lst = self.list_of(v, s1, e)
            d = self.distinct_formula(lst)
            out.append((s1, VScalar(d if isinstance(e.ops[0], ast.Eq) else z3.Not(d), T.bool)))
        return out

    def distinct_formula(self, l: VList):
        if l.distinct:
            return z3.BoolVal(True)
        i = z3.Int(fresh_name("i"))
        j = z3.Int(fresh_name("j"))
        return z3.ForAll([i, j], z3.Implies(z3.And(0 <= i, i < j, j < l.n), l.arr[i] != l.arr[j]))

    def compare(self, op, a: V, b: V, st: State, node) -> V:
        if isinstance(op, (ast.Is, ast.IsNot)):
            neg = isinstance(op, ast.IsNot)
            if isinstance(b, VNone) or isinstance(a, VNone):
                o = a if isinstance(b, VNone) else b
                if isinstance(o, VNone):
                    r = True
                elif isinstance(o, VOpt):
                    r = o.is_none
                elif isinstance(o, VScalar) and o.ty.kind == "oatom":
                    r = o.z == self.S.NONE
                else:
                    r = False
                if isinstance(r, bool):
                    return VPy(r != neg)
                return VScalar(z3.Not(r) if neg else r, T.bool)
            if isinstance(a, VScalar) and isinstance(b, VScalar) and a.ty.kind == "obj" and b.ty.kind == "obj":
                r = a.z == b.z
                return VScalar(z3.Not(r) if neg else r, T.bool)
            if isinstance(a, VPy) and isinstance(b, VPy):
                if isinstance(a.obj, tuple) and isinstance(b.obj, tuple) and a.obj[:1] == ("typeof",) and b.obj[:1] == ("typeof",):
                    x, y = a.obj[1], b.obj[1]
                    if isinstance(x, VScalar) and isinstance(y, VScalar) and x.ty.kind == "obj" and y.ty.kind == "obj":
                        r = self.tag_of(st, x) == self.tag_of(st, y)
                        return VScalar(z3.Not(r) if neg else r, T.bool)
                    raise Unsupported("type(x) is type(y) on non-objects", node)
                return VPy((a.obj == b.obj) != neg)
            raise Unsupported("`is` on %s/%s" % (type(a).__name__, type(b).__name__), node)
        if isinstance(op, (ast.In, ast.NotIn)):
            r = self.contains(b, a, st, node)
            return VScalar(z3.Not(r) if isinstance(op, ast.NotIn) else r, T.bool)
        if isinstance(op, (ast.Eq, ast.NotEq)):
            r = veq_safe(self, a, b, st, node)
            if isinstance(r, bool):
                return VPy(r == isinstance(op, ast.Eq))
            return VScalar(r if isinstance(op, ast.Eq) else z3.Not(r), T.bool)
        # ordering
        if isinstance(a, VPy) and isinstance(b, VPy):
            import operator
            f = {ast.Lt: operator.lt, ast.LtE: operator.le, ast.Gt: operator.gt, ast.GtE: operator.ge}[type(op)]
            return VPy(f(a.obj, b.obj))
        az = self.coerce(a, T.int, st, node).z
        bz = self.coerce(b, T.int, st, node).z
        r = {ast.Lt: az < bz, ast.LtE: az <= bz, ast.Gt: az > bz, ast.GtE: az >= bz}[type(op)]
        return VScalar(r, T.bool)

    def ex_BinOp(self, e, st):
        out = []
        for (s1, a) in self.ev(e.left, st):
            if isinstance(a, Raised):
                out.append((s1, a))
                continue
            for (s2, b) in self.ev(e.right, s1):
                if isinstance(b, Raised):
                    out.append((s2, b))
                    continue
                out.append((s2, self.binop(e.op, a, b, s2, e)))
        return out

    def binop(self, op, a: V, b: V, st: State, node) -> V:
        if isinstance(a, VPy) and isinstance(b, VPy) and isinstance(a.obj, int) and isinstance(b.obj, int):
            import operator
            f = {ast.Add: operator.add, ast.Sub: operator.sub, ast.Mult: operator.mul}.get(type(op))
            if f:
                return VPy(f(a.obj, b.obj))
        if isinstance(a, VStr) and isinstance(b, VStr) and isinstance(op, ast.Add):
            return VStr(a.s + b.s)
        if isinstance(op, ast.Mult) and isinstance(a, VStr) and isinstance(b, VPy) and isinstance(b.obj, int):
            return VStr(a.s * b.obj)
        if isinstance(op, ast.Mult) and isinstance(a, VStr) and isinstance(b, VScalar) and b.ty.kind == "int":
            # "text" * k: an uninterpreted function of the text and the count
            r = self.S.func("str_repeat", self.S.Atom, z3.IntSort(), self.S.Atom)(self.S.str_const(a.s), b.z)
            st.assume(r != self.S.NONE)
            return VScalar(r, T.atom)
        if isinstance(op, ast.Add) and (isinstance(a, (VStr,)) or isinstance(b, (VStr,)) or (isinstance(a, VScalar) and a.ty.kind in ("atom", "oatom") and a.z.sort() == self.S.Atom)) \
                and not isinstance(a, (VList, VTuple)) and not isinstance(b, (VList, VTuple)):
            return self.registry.strcat(self, st, a, b, node)
        if isinstance(a, (VSet, VDict)) and isinstance(op, (ast.Sub, ast.BitAnd, ast.BitOr)):
            aa = self.set_of(a, st, node)
            bb = self.set_of(b, st, node)
            f = {ast.Sub: z3.SetDifference, ast.BitAnd: z3.SetIntersect, ast.BitOr: z3.SetUnion}[type(op)]
            return VSet(f(aa.arr, bb.arr), aa.ty)
        if isinstance(op, ast.Add) and isinstance(a, (VList, VTuple)) and isinstance(b, (VList, VTuple)):
            if isinstance(a, VTuple) and isinstance(b, VTuple):
                return VTuple(a.items + b.items, is_list=a.is_list)
            la = self.list_of(a, st, node)
            lb = self.list_of(b, st, node)
            return self.list_concat(la, lb, st)
        if isinstance(op, (ast.Add, ast.Sub, ast.Mult)):
            az = self.coerce(a, T.int, st, node).z
            bz = self.coerce(b, T.int, st, node).z
            return VScalar({ast.Add: az + bz, ast.Sub: az - bz, ast.Mult: az * bz}[type(op)], T.int)
        raise Unsupported("binary op %s on %s/%s" % (type(op).__name__, type(a).__name__, type(b).__name__), node)

    def list_concat(self, la: VList, lb: VList, st: State) -> VList:
        arr = z3.Const(fresh_name("cat"), la.arr.sort())
        i = z3.Int(fresh_name("i"))
        st.assume(z3.ForAll([i], arr[i] == z3.If(i < la.n, la.arr[i], lb.arr[i - la.n]), patterns=[arr[i]]))
        return VList(la.n + lb.n, arr, la.ty, False, False, z3.SetUnion(self.list_mem(la, st), self.list_mem(lb, st)))

    def ex_Subscript(self, e, st):
        out = []
        for (s1, cont) in self.ev(e.value, st):
            if isinstance(cont, Raised):
                out.append((s1, cont))
                continue
            for (s2, key) in self.ev(e.slice, s1):
                if isinstance(key, Raised):
                    out.append((s2, key))
                    continue
                out.extend(self.subscript(cont, key, s2, e))
        return out

    def subscript(self, cont: V, key: V, st: State, node) -> List[Tuple[State, Any]]:
        if isinstance(cont, VOpt):
            t, f = self.branch(st, cont.is_none, node)
            out = []
            if t is not None:
                out.append((t, Raised("TypeError")))
            if f is not None:
                out.extend(self.subscript(cont.val, key, f, node))
            return out
        if isinstance(cont, VTuple):
            if isinstance(key, VPy) and isinstance(key.obj, int):
                if -len(cont.items) <= key.obj < len(cont.items):
                    return [(st, cont.items[key.obj])]
                return [(st, Raised("IndexError"))]
            raise Unsupported("symbolic index into literal tuple", node)
        if isinstance(cont, VDict):
            k = self.as_atom(key, st, node)
            t, f = self.branch(st, cont.dom[k], node)
            out = []
            if t is not None:
                out.append((t, VScalar(cont.val[k], cont.ty.args[1])))
            if f is not None:
                out.append((f, Raised("KeyError")))
            return out
        if isinstance(cont, VList) and isinstance(key, VPy) and isinstance(key.obj, tuple) and key.obj[0] == "suffixslice":
            # lst[k:] with a literal k >= 0: a NEW list of length max(n - k, 0) whose element i is lst[i + k] (never raises)
            k = key.obj[1]
            n2 = z3.Int(fresh_name("slice_n"))
            a2 = z3.Const(fresh_name("slice_arr"), cont.arr.sort())
            qi = z3.Int(fresh_name("slice_i"))
            st.assume(n2 == z3.If(cont.n >= k, cont.n - k, 0))
            st.assume(z3.ForAll([qi], z3.Implies(z3.And(0 <= qi, qi < n2), a2[qi] == cont.arr[qi + k]), patterns=[a2[qi]]))
            return [(st, VList(n2, a2, cont.ty))]
        if isinstance(cont, VList):
            idx = self.coerce(key, T.int, st, node).z
            t, f = self.branch(st, z3.And(0 <= idx, idx < cont.n), node)
            out = []
            if t is not None:
                out.append((t, VScalar(cont.arr[idx], cont.ty.args[0])))
            if f is not None:
                if isinstance(key, VPy) and key.obj < 0:
                    raise Unsupported("negative list index", node)
                out.append((f, Raised("IndexError")))
            return out
        if isinstance(cont, VPy) and isinstance(cont.obj, tuple) and cont.obj[0] == "dictlit":
            for (k, v) in cont.obj[1]:
                if isinstance(k, VStr) and isinstance(key, VStr) and k.s == key.s:
                    return [(st, v)]
            raise Unsupported("lookup in dict literal", node)
        if isinstance(cont, VPy) and isinstance(cont.obj, tuple) and cont.obj[0] == "boundmethod":
            r = self.registry.subscript(self, st, cont, key, node)
            if r is not None:
                return r
        r = self.registry.subscript(self, st, cont, key, node)
        if r is not None:
            return r
        raise Unsupported("subscript on %s" % type(cont).__name__, node)

    # ---- comprehensions

    def comp_parts(self, e, st):
        if len(e.generators) != 1:
            raise Unsupported("comprehension with several generators", e)
        g = e.generators[0]
        if g.is_async:
            raise Unsupported("async comprehension", e)
        return g

    def comp_iter(self, e, st):
        """evaluate the generator of a comprehension: yields (state, n, elem_at, seqinfo)."""
        g = self.comp_parts(e, st)
        out = []
        for (s1, itv) in self.ev_iter(g.iter, st):
            if isinstance(itv, Raised):
                out.append((s1, itv, None, None, None))
                continue
            if isinstance(itv, VTuple):
                out.append((s1, "concrete", itv.items, None, g))
                continue
            if isinstance(itv, VPy) and isinstance(itv.obj, range):
                out.append((s1, "concrete", [VPy(i) for i in itv.obj], None, g))
                continue
            n, elem_at, info = self.iteration_view(itv, s1, e)
            out.append((s1, n, elem_at, info, g))
        return out

    def comp_body(self, g, elt_nodes, elem: V, st: State, node):
        """evaluate filters and element expressions for one symbolic/concrete element on a scratch state.
        Returns (cond, [values], extra_facts, scratch_state).  Forks are merged into if-then-else values; raising
        branches become the obligation `no exception inside the comprehension` (self._comp_raise collects them)."""
        sc = st.fork()
        sc.pending = []
        r = self.assign(g.target, elem, sc, None)
        if len(r) != 1 or r[0][1] is not None:
            raise Unsupported("comprehension target", node)
        sc = r[0][0]
        npc = len(sc.pc)
        branches = [(sc, True, [])]  # (state, filter condition, values so far)
        raised = []
        for c in g.ifs:
            nxt = []
            for (b, cond, vals) in branches:
                for (b2, v) in self.ev(c, b):
                    if isinstance(v, Raised):
                        raised.append(b2)
                        continue
                    t = self.truth(v, b2, node)
                    nc = t if cond is True else (cond if t is True else z3.And(self.zbool(cond), self.zbool(t)))
                    nxt.append((b2, nc, vals))
            branches = nxt
        for en in elt_nodes:
            nxt = []
            for (b, cond, vals) in branches:
                for (b2, v) in self.ev(en, b):
                    if isinstance(v, Raised):
                        raised.append((b2, cond))
                        continue
                    nxt.append((b2, cond, vals + [v]))
            branches = nxt
        if any(b.pending for (b, _, _) in branches):
            raise Unsupported("call with a precondition inside a comprehension", node)
        self._comp_raise = []
        for rb in raised:
            if isinstance(rb, tuple):
                b, cond = rb
                self._comp_raise.append(z3.And(self.zbool(cond), *b.pc[npc:]) if b.pc[npc:] else self.zbool(cond))
            else:
                self._comp_raise.append(z3.And(*rb.pc[npc:]) if rb.pc[npc:] else z3.BoolVal(True))
        if not branches:
            raise Unsupported("comprehension element always raises", node)
        if len(branches) == 1:
            b, cond, vals = branches[0]
            return cond, vals, b.pc[npc:], b
        # merge forks: value = nested if over the branch constraints
        paths = [z3.And(*b.pc[npc:]) if b.pc[npc:] else z3.BoolVal(True) for (b, _, _) in branches]
        nvals = len(branches[0][2])
        merged = []
        for j in range(nvals):
            vs = [vals[j] for (_, _, vals) in branches]
            zs = []
            for v in vs:
                if isinstance(v, VStr):
                    v = VScalar(self.S.str_const(v.s), T.atom)
                if isinstance(v, VNone):
                    v = VScalar(self.S.NONE, T.oatom)
                if isinstance(v, VPy) and isinstance(v.obj, bool):
                    v = VScalar(z3.BoolVal(v.obj), T.bool)
                if isinstance(v, VPy) and isinstance(v.obj, int):
                    v = VScalar(z3.IntVal(v.obj), T.int)
                if not isinstance(v, VScalar):
                    raise Unsupported("forking comprehension element of type %s" % type(v).__name__, node)
                zs.append(v)
            acc = zs[-1].z
            for pth, v in reversed(list(zip(paths[:-1], zs[:-1]))):
                acc = z3.If(pth, v.z, acc)
            ty = zs[0].ty
            if any(z.ty.kind == "oatom" for z in zs):
                ty = T.oatom
            merged.append(VScalar(acc, ty))
        conds = [z3.And(pth, self.zbool(c)) for pth, (_, c, _) in zip(paths, branches)]
        cond = z3.Or(*conds)
        if all(c is True for (_, c, _) in branches):
            cond = True
        extra = [z3.Or(*paths)]
        return cond, merged, extra, branches[0][0]

    def comp_obligations(self, st: State, node, quantify):
        """raising branches recorded by the last comp_body call become an obligation; quantify(f) closes it
        over the iteration variable."""
        for rc in getattr(self, "_comp_raise", []):
            st.oblige("no-exception-in-comprehension@line%d" % node.lineno, quantify(z3.Not(rc)), node.lineno)
        self._comp_raise = []

    def ex_ListComp(self, e, st):
        out = []
        for (s1, n, elem_at, info, g) in self.comp_iter(e, st):
            if isinstance(n, Raised):
                out.append((s1, n))
                continue
            if isinstance(n, str) and n == "concrete":
                out.extend(self.concrete_listcomp(e, g, s1, elem_at))
                continue
            out.append((s1, self.symbolic_listcomp(e, g, s1, n, elem_at, info)))
        return out

    ex_GeneratorExp = ex_ListComp

    def concrete_listcomp(self, e, g, st: State, items):
        """[f(x) for x in <literal sequence> if p(x)]: unrolled on the real state (calls inside may touch the heap)."""
        saved = {n.id: st.env.get(n.id) for n in ast.walk(g.target) if isinstance(n, ast.Name)}
        states = [(st, [])]
        for it in items:
            nxt = []
            for (cur, acc) in states:
                if isinstance(acc, Raised):
                    nxt.append((cur, acc))
                    continue
                for (c1, o1) in self.assign(g.target, it, cur, None):
                    if o1 is not None:
                        nxt.append((c1, o1[1]))
                        continue
                    conds = [(c1, True)]
                    for flt in g.ifs:
                        nc = []
                        for (c2, keep) in conds:
                            if keep is not True:
                                nc.append((c2, keep))
                                continue
                            for (c3, fv) in self.ev(flt, c2):
                                if isinstance(fv, Raised):
                                    nc.append((c3, fv))
                                    continue
                                t, f = self.branch(c3, self.truth(fv, c3, e), e)
                                if t is not None:
                                    nc.append((t, True))
                                if f is not None:
                                    nc.append((f, False))
                        conds = nc
                    for (c2, keep) in conds:
                        if isinstance(keep, Raised):
                            nxt.append((c2, keep))
                        elif keep is False:
                            nxt.append((c2, acc))
                        else:
                            for (c3, v) in self.ev(e.elt, c2):
                                nxt.append((c3, v if isinstance(v, Raised) else acc + [v]))
            states = nxt
        out = []
        for (cur, acc) in states:
            for nm, old in saved.items():
                if old is None:
                    cur.env.pop(nm, None)
                else:
                    cur.env[nm] = old
            out.append((cur, acc if isinstance(acc, Raised) else VTuple(acc, is_list=True)))
        return out

    def symbolic_listcomp(self, e, g, st: State, n, elem_at, info=None) -> VList:
        """[f(x) for x in seq if p(x)]: result keeps relative order (engine axiom §3.6-3).
        Encoded with a monotone index embedding src: [0,m) -> [0,n); the set view is kept alongside."""
        i = z3.Int(fresh_name("ci"))
        cond, vals, extra, _ = self.comp_body(g, [e.elt], elem_at(i), st, e)
        self.comp_obligations(st, e, lambda f: z3.ForAll([i], z3.Implies(z3.And(0 <= i, i < n), f)))
        v = vals[0]
        if isinstance(v, VStr):
            v = VScalar(self.S.str_const(v.s), T.atom)
        if isinstance(v, VPy) and isinstance(v.obj, bool):
            v = VScalar(z3.BoolVal(v.obj), T.bool)
        if not isinstance(v, VScalar):
            raise Unsupported("list comprehension producing %s" % type(v).__name__, e)
        guard = z3.And(0 <= i, i < n)
        for f in extra:
            st.assume(z3.ForAll([i], z3.Implies(guard, f)))
        condz = self.zbool(cond)
        src_list = info if isinstance(info, VList) else None
        identity = src_list is not None and v.z.eq(src_list.arr[i])
        if cond is True and identity:
            return VList(src_list.n, src_list.arr, src_list.ty, False, src_list.distinct, src_list.mem)
        # set view of the result when the source has one and the element is the iteration element itself
        rmem = None
        if identity:
            smem = self.list_mem(src_list, st)
            x = z3.Const(fresh_name("lx"), v.z.sort())
            cx = z3.substitute(condz, (src_list.arr[i], x))
            if not self.mentions(cx, i):
                rmem = z3.Const(fresh_name("lc_mem"), smem.sort())
                st.assume(z3.ForAll([x], rmem[x] == z3.And(smem[x], cx), patterns=[rmem[x]]))
        if rmem is None and src_list is not None:
            # set view of a mapped (and filtered) comprehension: the image of the source's member set
            smem = self.list_mem(src_list, st)
            x = z3.Const(fresh_name("lx"), src_list.arr.sort().range())
            vx = z3.substitute(v.z, (src_list.arr[i], x))
            cx = z3.substitute(condz, (src_list.arr[i], x))
            if not self.mentions(vx, i) and not self.mentions(cx, i):
                rmem = z3.Const(fresh_name("lc_img"), z3.ArraySort(v.z.sort(), z3.BoolSort()))
                pre_img = z3.Function(fresh_name("lc_pre"), v.z.sort(), x.sort())
                y = z3.Const(fresh_name("ly"), v.z.sort())
                st.assume(z3.ForAll([x], z3.Implies(z3.And(smem[x], cx), rmem[vx]), patterns=[smem[x]]))
                st.assume(z3.ForAll([y], z3.Implies(rmem[y], z3.And(smem[pre_img(y)], z3.substitute(cx, (x, pre_img(y))), z3.substitute(vx, (x, pre_img(y))) == y)), patterns=[rmem[y]]))
        if cond is True:
            arr = z3.Const(fresh_name("lc"), z3.ArraySort(z3.IntSort(), v.z.sort()))
            st.assume(z3.ForAll([i], z3.Implies(guard, arr[i] == v.z), patterns=[arr[i]]))
            return VList(n, arr, T.list(v.ty), False, False, rmem)
        m = z3.Int(fresh_name("lc_n"))
        arr = z3.Const(fresh_name("lc"), z3.ArraySort(z3.IntSort(), v.z.sort()))
        src = z3.Function(fresh_name("src"), z3.IntSort(), z3.IntSort())
        dst = z3.Function(fresh_name("dst"), z3.IntSort(), z3.IntSort())
        j = z3.Int(fresh_name("cj"))
        j2 = z3.Int(fresh_name("cj2"))
        sub = lambda t, x: z3.substitute(t, (i, x))
        st.assume(z3.And(0 <= m, m <= n))
        st.assume(z3.ForAll([j], z3.Implies(z3.And(0 <= j, j < m), z3.And(0 <= src(j), src(j) < n, sub(condz, src(j)), arr[j] == sub(v.z, src(j)), dst(src(j)) == j)), patterns=[src(j)]))
        st.assume(z3.ForAll([j, j2], z3.Implies(z3.And(0 <= j, j < j2, j2 < m), src(j) < src(j2)), patterns=[z3.MultiPattern(src(j), src(j2))]))
        st.assume(z3.ForAll([i], z3.Implies(z3.And(guard, condz), z3.And(0 <= dst(i), dst(i) < m, src(dst(i)) == i)), patterns=[dst(i)]))
        return VList(m, arr, T.list(v.ty), False, bool(identity and src_list.distinct), rmem)

    def mentions(self, term, var) -> bool:
        todo = [term]
        seen = set()
        while todo:
            t = todo.pop()
            if t.get_id() in seen:
                continue
            seen.add(t.get_id())
            if t.eq(var):
                return True
            todo.extend(t.children())
        return False

    def ex_SetComp(self, e, st):
        out = []
        for (s1, n, elem_at, info, g) in self.comp_iter(e, st):
            if isinstance(n, Raised):
                out.append((s1, n))
                continue
            if isinstance(n, str) and n == "concrete":
                raise Unsupported("set comprehension over literal", e)
            l = self.symbolic_listcomp(e, g, s1, n, elem_at, info)
            out.append((s1, self.set_of(l, s1, e)))
        return out

    def ex_DictComp(self, e, st):
        out = []
        g = self.comp_parts(e, st)
        for (s1, itv) in self.ev_iter(g.iter, st):
            if isinstance(itv, Raised):
                out.append((s1, itv))
                continue
            out.append((s1, self.symbolic_dictcomp(e, g, s1, itv)))
        return out

    def alloc_dictcomp(self, e, g, st: State, itv):
        """{k: Cls(args(k)) for k in S}: one fresh object per key, all allocated `in parallel` (DESIGN §3.2 heap).
        Needs an __init__ contract exposing init_fields (the same description its own verification uses)."""
        if not (isinstance(e.value, ast.Call) and isinstance(e.value.func, ast.Name) and e.value.func.id in self.classes):
            return None
        cls = e.value.func.id
        c = self.registry.contracts.get("%s.__init__" % cls)
        if c is None or getattr(c, "init_fields", None) is None or g.ifs or e.value.keywords:
            return None
        if not (isinstance(e.key, ast.Name) and isinstance(g.target, ast.Name) and e.key.id == g.target.id):
            return None
        sv = self.set_of(itv, st, e)
        ks = sv.arr.sort().domain()
        x = z3.Const(fresh_name("ak"), ks)
        sc = st.fork()
        sc.pending = []
        sc.env[g.target.id] = VScalar(x, sv.ty.args[0])
        rs = self.ev_list(e.value.args, sc)
        if len(rs) != 1 or any(isinstance(v, Raised) for v in rs[0][1]):
            return None
        args = rs[0][1]
        from .contracts import signature, load_function, Ctx
        fn = c.node or load_function(c.file, c.qualname)
        pos = [a.arg for a in fn.args.args][1:]
        argmap = {n: self.coerce(v, c.params[n], sc, e) for n, v in zip(pos, args)}
        F = z3.Function(fresh_name("new_%s_of" % cls), ks, z3.IntSort())
        Finv = z3.Function(fresh_name("key_of_%s" % cls), z3.IntSort(), ks)
        al = st.ghost.setdefault("alloc", z3.Const("alloc0", z3.ArraySort(z3.IntSort(), z3.BoolSort())))
        tag = self.S.func("class_tag", z3.IntSort(), z3.IntSort())
        st.assume(z3.ForAll([x], z3.Implies(sv.arr[x], z3.And(F(x) >= 0, z3.Not(al[F(x)]), tag(F(x)) == self.classes[cls].tag, Finv(F(x)) == x)), patterns=[F(x)]))
        fields = c.init_fields(Ctx(self, sc, dict(argmap, self=VScalar(F(x), T.obj(cls))), st.heap_snapshot()))
        o = z3.Int(fresh_name("o"))
        for fname, fval in fields.items():
            hf = self.heap_field(st, cls, fname)
            fval = self.coerce(fval, hf.ty, sc, e)
            from .values import flatten as _flat
            newparts = []
            for old, part in zip(hf.parts, _flat(fval)):
                h2 = z3.Const(fresh_name("H_%s_%s_pa" % (cls, fname)), old.sort())
                st.assume(z3.ForAll([x], z3.Implies(sv.arr[x], h2[F(x)] == part), patterns=[h2[F(x)]]))
                st.assume(z3.ForAll([o], z3.Implies(al[o], h2[o] == old[o]), patterns=[h2[o]]))
                newparts.append(h2)
            hf.parts = newparts
        al2 = z3.Const(fresh_name("alloc"), al.sort())
        st.assume(z3.ForAll([o], z3.Implies(al[o], al2[o]), patterns=[al[o]]))
        st.assume(z3.ForAll([x], z3.Implies(sv.arr[x], al2[F(x)]), patterns=[F(x)]))
        st.ghost["alloc"] = al2
        val = z3.Const(fresh_name("dc_val"), z3.ArraySort(ks, z3.IntSort()))
        st.assume(z3.ForAll([x], z3.Implies(sv.arr[x], val[x] == F(x)), patterns=[val[x]]))
        self.registry.note("parallel allocation in a comprehension: one fresh %s per key, distinct keys give distinct objects" % cls)
        return VDict(sv.arr, val, T.dict(sv.ty.args[0], T.obj(cls)))

    def symbolic_dictcomp(self, e, g, st: State, itv) -> VDict:
        """{k(x): v(x) for x in it if p(x)} where k(x) is the iteration element itself (or the key of items())."""
        pa = self.alloc_dictcomp(e, g, st, itv)
        if pa is not None:
            return pa
        src_dict = None
        if isinstance(itv, VPy) and isinstance(itv.obj, tuple) and itv.obj[0] == "items":
            src_dict = itv.obj[1]
            keyset = src_dict.dom
            ks = keyset.sort().domain()
            x = z3.Const(fresh_name("dk"), ks)
            elem = VTuple([VScalar(x, src_dict.ty.args[0]), VScalar(src_dict.val[x], src_dict.ty.args[1])])
        else:
            sv = self.set_of(itv, st, e)
            keyset = sv.arr
            ks = keyset.sort().domain()
            x = z3.Const(fresh_name("dk"), ks)
            elem = VScalar(x, sv.ty.args[0])
        cond, vals, extra, _ = self.comp_body(g, [e.key, e.value], elem, st, e)
        self.comp_obligations(st, e, lambda f: z3.ForAll([x], z3.Implies(keyset[x], f)))
        kv, vv = vals
        if isinstance(vv, VNone):
            vv = VScalar(self.S.NONE, T.oatom)
        if isinstance(vv, VStr):
            vv = VScalar(self.S.str_const(vv.s), T.atom)
        if not (isinstance(vv, VScalar)):
            raise Unsupported("dict comprehension with non-scalar values", e)
        for f in extra:
            st.assume(z3.ForAll([x], z3.Implies(keyset[x], f)))
        condz = self.zbool(cond)
        if isinstance(kv, VScalar) and kv.z.eq(x):
            dom = z3.Const(fresh_name("dc_dom"), z3.ArraySort(ks, z3.BoolSort()))
            val = z3.Const(fresh_name("dc_val"), z3.ArraySort(ks, vv.z.sort()))
            st.assume(z3.ForAll([x], dom[x] == z3.And(keyset[x], condz), patterns=[dom[x]]))
            st.assume(z3.ForAll([x], z3.Implies(z3.And(keyset[x], condz), val[x] == vv.z), patterns=[val[x]]))
            return VDict(dom, val, T.dict(kv.ty, vv.ty))
        # general key expression (e.g. {v: k for k, v in d.items()}): image with skolem pre-image;
        # python keeps the LAST writer for a repeated key, so the value is only pinned when the key map is injective
        if not isinstance(kv, VScalar):
            raise Unsupported("dict comprehension key", e)
        ks2 = kv.z.sort()
        dom = z3.Const(fresh_name("dc_dom"), z3.ArraySort(ks2, z3.BoolSort()))
        val = z3.Const(fresh_name("dc_val"), z3.ArraySort(ks2, vv.z.sort()))
        pre = z3.Function(fresh_name("pre"), ks2, ks)
        y = z3.Const(fresh_name("dy"), ks2)
        sub = lambda t, a: z3.substitute(t, (x, a))
        st.assume(z3.ForAll([x], z3.Implies(z3.And(keyset[x], condz), dom[kv.z]), patterns=[keyset[x]]))
        st.assume(z3.ForAll([y], z3.Implies(dom[y], z3.And(sub(keyset[x], pre(y)), sub(condz, pre(y)), sub(kv.z, pre(y)) == y, val[y] == sub(vv.z, pre(y)))), patterns=[dom[y]]))
        return VDict(dom, val, T.dict(kv.ty, vv.ty))

    # ---- calls

    def ex_Call(self, e, st):
        from . import builtins_model

        return builtins_model.call(self, e, st)

    def ex_Slice(self, e, st):
        if e.lower is None and e.upper is None and e.step is None:
            return [(st, VPy(("fullslice",)))]
        if e.upper is None and e.step is None and isinstance(e.lower, ast.Constant) and isinstance(e.lower.value, int) and not isinstance(e.lower.value, bool) and e.lower.value >= 0:
            return [(st, VPy(("suffixslice", e.lower.value)))]
        raise Unsupported("slice with bounds", e)

    def ex_Lambda(self, e, st):
        return [(st, VPy(("lambda", e)))]


def veq_safe(eng: Engine, a: V, b: V, st: State, node):
    """python == with the cross-type cases the repo uses (str const vs atom, None vs oatom, ...)."""
    S = eng.S
    if isinstance(a, VStr) and isinstance(b, VScalar):
        a = VScalar(S.str_const(a.s), T.atom)
    if isinstance(b, VStr) and isinstance(a, VScalar):
        b = VScalar(S.str_const(b.s), T.atom)
    if isinstance(a, VNone) and isinstance(b, VScalar) and b.ty.kind == "oatom":
        return b.z == S.NONE
    if isinstance(b, VNone) and isinstance(a, VScalar) and a.ty.kind == "oatom":
        return a.z == S.NONE
    if isinstance(a, VPy) and isinstance(b, VScalar) and isinstance(a.obj, (int, bool)):
        if b.ty.kind == "int" and not isinstance(a.obj, bool):
            return b.z == a.obj
        if b.ty.kind == "bool":
            return b.z == bool(a.obj)
        return False
    if isinstance(b, VPy) and isinstance(a, VScalar):
        return veq_safe(eng, b, a, st, node)
    if isinstance(a, VPy) and isinstance(b, VPy):
        try:
            return bool(a.obj == b.obj)
        except Exception:
            raise Unsupported("== on concrete objects", node)
    if isinstance(a, VPy) or isinstance(b, VPy):
        o = b if isinstance(a, VPy) else a
        p = a if isinstance(a, VPy) else b
        if isinstance(o, (VList, VSet, VDict, VNone, VStr, VTuple)):
            if isinstance(p.obj, int) and not isinstance(o, VNone):
                return False  # e.g. partition_by != 1 where partition_by is a list
            if isinstance(o, VNone):
                return False
        raise Unsupported("== between concrete and symbolic (%s)" % type(o).__name__, node)
    if isinstance(a, (VList, VTuple)) and isinstance(b, (VList, VTuple)) and not (isinstance(a, VTuple) and isinstance(b, VTuple)):
        la, lb = eng.list_of(a, st, node), eng.list_of(b, st, node)
        ta = a.is_tuple if isinstance(a, VList) else (not a.is_list)
        tb = b.is_tuple if isinstance(b, VList) else (not b.is_list)
        if ta != tb:
            return False  # python: a list never equals a tuple
        return veq(la, lb)
    if isinstance(a, VList) and isinstance(b, VList) and a.is_tuple != b.is_tuple:
        return False
    try:
        return veq(a, b)
    except TypeError as ex:
        if type(a) is not type(b) and not isinstance(a, VOpt) and not isinstance(b, VOpt):
            return False
        raise Unsupported(str(ex), node)
