"""Glue between pyvc results and vlib.core.Report: obligations, lock file, replay-before-report."""
from __future__ import annotations

import json
import os
import time
from typing import Any, Callable, Dict, List, Optional

from vlib.core import LOCK_FILE, Obligation, Report, Violation, file_sha, REPO
from .run import verify_all


def load_lock() -> Dict[str, Any]:
    try:
        with open(LOCK_FILE) as f:
            return json.load(f)
    except OSError:
        return {}


def run_proofs(rep: Report, mods: List[str], keys: List[str], replays: Dict[str, str] = None,
               timeout_ms: int = 20000, workers: int = 16) -> Dict[str, Any]:
    """verify targets `keys` (contract keys) declared by sidecar modules `mods`; fill rep.

    replays[target_key] = "module:function"; function(case) -> {"fails": bool, "observed": str} replays a concretised
    counter-model natively (run inside the worker, so the search continues when a candidate does not reproduce).
    """
    replays = replays or {}
    generic = ("pyvc encoding (DESIGN §3.6, §10.1): Python int = mathematical integer (exact for CPython); floats are never reasoned about; strings are uninterpreted atoms; dict/set/list semantics as modelled "
               "by the engine (insertion-ordered dicts by injective stamps); exceptions other than those raised explicitly or by modelled operations (KeyError, IndexError, AttributeError on None, AssertionError) are not "
               "modelled; termination is not proved; obligations are discharged per function against the CONTRACTS of callees (assumed contracts are listed in trusted_base)")
    if generic not in rep.assumptions:
        rep.assumptions.append(generic)
    lock = {} if os.environ.get("PYVC_RELOCK") else load_lock().get(rep.property_id, {})  # --relock rebuilds the list from scratch
    res = verify_all(mods, keys, workers=workers, timeout_ms=timeout_ms, replays=replays)
    seen_names = set()
    for key in keys:
        r = res[key]
        if r.get("file"):
            rep.functions_under_contract.append({"file": r["file"], "function": r["qualname"], "sha": file_sha(os.path.join(REPO, r["file"])),
                                                 "paths": r["info"].get("paths"), "entry_variants": r["info"].get("variants")})
        for a in r.get("info", {}).get("assumptions", []):
            rep.trusted_base.append(a)
        if r["status"] != "ok":
            # untranslatable target: undecided, never a violation by itself (DESIGN §3.8-1)
            locked = [n for n in lock if n.startswith(key + ".")]
            rep.obligations.append(Obligation(name=key + ".<all>", target=key, status="undecided", backend="none",
                                              detail="%s: %s" % (r["status"], r.get("detail", "")[-400:])))
            rep.extra.setdefault("untranslatable_targets", []).append({"target": key, "reason": r.get("detail", "")[-400:], "locked_obligations": len(locked)})
            if r["status"] == "engine-error":
                rep.errors.append("pyvc engine error on %s: %s" % (key, r.get("detail", "")[-600:]))
            elif locked:
                # the obligations of this target were discharged on the pinned tree and cannot even be generated now (the body left the
                # translatable subset, or the wall limit hit): coverage is lost -> exit 2 (undecided), neither "held" nor a VIOLATION
                rep.extra.setdefault("undecided_locked_targets", []).append("%s: %d locked obligation(s) cannot be decided now (%s: %s)" % (key, len(locked), r["status"], r.get("detail", "")[-200:]))
            continue
        for ip in r["info"].get("inconsistent_paths", []):
            rep.errors.append("inconsistent assumptions: the ground expansion of the facts on path %s of %s is unsatisfiable (every obligation on it would be vacuous)" % (ip, key))
        rep.extra["ground_consistency_canaries"] = rep.extra.get("ground_consistency_canaries", 0) + r["info"].get("ground_canaries", 0)
        for vp in r["info"].get("vacuous_paths", []):
            rep.errors.append("vacuous obligation (every path condition it is checked under is contradictory; canary `False` proved): %s" % vp)
        rep.extra["canaries_checked"] = rep.extra.get("canaries_checked", 0) + r["info"].get("canaries", 0)
        rep.extra["infeasible_paths_kept_by_the_pruner"] = rep.extra.get("infeasible_paths_kept_by_the_pruner", 0) + r["info"].get("infeasible_paths", 0)
        by_name: Dict[str, List[dict]] = {}
        for x in r["results"]:
            by_name.setdefault(x["name"], []).append(x)
        if not by_name:
            rep.errors.append("vacuous: target %s generated zero obligations" % key)
        for name, xs in by_name.items():
            seen_names.add(name)
            secs = sum(x["seconds"] for x in xs)
            backends = sorted(set(x["backend"] for x in xs))
            if all(x["status"] == "unsat" for x in xs):
                rep.obligations.append(Obligation(name, key, "discharged", "+".join(backends), secs, len(xs)))
                continue
            sat = [x for x in xs if x["status"] == "sat"]
            confirmed = None
            artefacts = [a for x in xs for a in (x.get("artefacts") or [])]
            for x in sat:
                out = x.get("confirmed")
                if out and out.get("fails"):
                    confirmed = {"obligation": name, "target": key, "path": x["path"], "solver": x["detail"], "backend": x["backend"],
                                 "case": out.get("case"), "observed": out.get("observed"), "module": out.get("module"), "repo_file_sha": file_sha(os.path.join(REPO, r["file"]))}
                    break
                artefacts.append({"path": x["path"], "note": "sat without a native replay", "detail": x["detail"]})
            for a in artefacts:
                if isinstance(a, dict) and "crashed" in str(a.get("observed", "")):
                    rep.errors.append("replay crashed for %s: %s" % (name, a.get("observed")))
            if confirmed:
                rep.obligations.append(Obligation(name, key, "failed", "+".join(backends), secs, len(xs), detail="counterexample replayed on the real code", counterexample=confirmed["case"]))
                rep.violations.append(Violation(key=name, what="obligation %s fails; replayed natively: %s" % (name, str(confirmed["observed"])[:300]), replay=confirmed))
                continue
            was_locked = lock.get(name, {}).get("status") == "discharged"
            detail = "; ".join(sorted(set(x["detail"] for x in xs if x["status"] != "unsat")))[:500]
            if was_locked:
                rep.obligations.append(Obligation(name, key, "failed", "+".join(backends), secs, len(xs), detail=detail))
                rep.violations.append(Violation(key=name, what="obligation %s was discharged on the pinned tree and is not discharged now (%s)" % (name, detail[:200]),
                                                replay={"obligation": name, "target": key, "solver_output": [dict(x, cex=None) for x in xs if x["status"] != "unsat"], "artefacts": artefacts,
                                                        "repo_file_sha": file_sha(os.path.join(REPO, r["file"]))}, no_failing_input=True))
            else:
                rep.obligations.append(Obligation(name, key, "undecided", "+".join(backends), secs, len(xs), detail=detail))
    # vacuity / lock comparison: every locked obligation of a translatable target must have been generated
    ok_targets = [k for k in keys if res[k]["status"] == "ok"]
    for name in lock:
        tgt = next((k for k in ok_targets if name.startswith(k + ".")), None)
        if tgt is not None and name not in seen_names and "@line" not in name:
            rep.errors.append("locked obligation %s was not generated this run (vacuity guard)" % name)
    return res


def write_lock(property_id: str, rep: Report) -> None:
    lock = load_lock()
    lock[property_id] = {o.name: {"status": o.status, "backend": o.backend} for o in rep.obligations if o.status == "discharged"}
    with open(LOCK_FILE, "w") as f:
        json.dump(lock, f, indent=1, sort_keys=True)


def attach_bounded_witness(rep: Report) -> None:
    """DESIGN §3.8-3: a failed obligation without a replayable counter-model borrows the failing input that the
    bounded contract run of the same property found (if any); otherwise it stays `no-failing-input-found`."""
    from vlib.core import findings_for
    listed = {f["key"] for f in findings_for(rep.property_id)}
    # only NEW failing inputs qualify: a case that belongs to a recorded known finding fails on the unchanged tree too and says nothing about this obligation
    witnesses = [v for v in rep.violations if not v.no_failing_input and "case" in v.replay and v.key not in listed]
    if not witnesses:
        return
    for v in rep.violations:
        if v.no_failing_input:
            v.no_failing_input = False
            v.replay = dict(v.replay, bounded_witness=witnesses[0].replay, case=witnesses[0].replay.get("case"), module=witnesses[0].replay.get("module"))
            v.what += " | failing input from the bounded contract run: " + witnesses[0].what[:200]


def proof_findings(rep: Report, witnesses: Dict[str, Callable[[], dict]]) -> None:
    """recorded proof-side findings (known_findings.json entries whose key is an obligation name):
    if the obligation is discharged now, the finding is gone and nothing is printed; otherwise its stored native witness
    is replayed and must still fail (-> a Violation with the finding's key, which vlib.core prints as KNOWN-FINDING);
    the residual obligation outside the finding's region is an ordinary obligation of the same target."""
    from vlib.core import findings_for
    listed = {f["key"] for f in findings_for(rep.property_id)}
    status = {o.name: o for o in rep.obligations}
    for name, wit in witnesses.items():
        o = status.get(name)
        if o is None or o.status == "discharged":
            continue
        try:
            out = wit()
        except Exception as ex:
            rep.errors.append("witness of finding %s crashed: %r" % (name, ex))
            continue
        if out.get("fails"):
            # drop a generic lock-based violation for the same obligation, the witness is the better report
            rep.violations = [v for v in rep.violations if v.key != name]
            rep.violations.append(Violation(key=name, what="obligation %s not discharged; native witness still fails: %s" % (name, str(out.get("observed"))[:300]),
                                            replay={"obligation": name, "case": out.get("case"), "observed": out.get("observed"), "witness": getattr(wit, "__name__", "")}))
            o.detail = (o.detail + " | recorded finding, witness replayed natively")[:300]
        elif name in listed:
            rep.extra.setdefault("stale_findings", []).append(name)
