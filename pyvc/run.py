"""verify a list of contracts: generate VCs from the current /repo source, discharge them in a process pool."""
from __future__ import annotations
import os, sys, time, traceback
from concurrent.futures import ProcessPoolExecutor
from typing import Dict, List

from .contracts import Registry, generate_vcs, discharge, discharge_long, refute_finite, VCResult, Contract
from .engine import Unsupported
from .values import Sorts


def verify_target(mod_names: List[str], key: str, timeout_ms: int = 30000, replay: str = ""):
    """worker: build a registry from the sidecar modules, verify one target; returns plain data."""
    import importlib
    import z3
    reg = Registry()
    for m in mod_names:
        importlib.import_module(m).register(reg)
    c = reg.contracts[key]
    S = Sorts()
    t0 = time.time()
    try:
        vcs, info = generate_vcs(reg, c, S)
    except Unsupported as ex:
        return {"key": key, "status": "untranslatable", "detail": str(ex), "results": [], "info": {}, "gen_s": time.time() - t0}
    except Exception:
        return {"key": key, "status": "engine-error", "detail": traceback.format_exc()[-1500:], "results": [], "info": {}, "gen_s": time.time() - t0}
    gen_s = time.time() - t0
    results = []
    replay_fn = None
    if replay:
        rm, rf = replay.split(":")
        replay_fn = getattr(importlib.import_module(rm), rf)
    def validate_for(Sx, vcx):
        def validate(model):
            if not getattr(c, "concretize", None) or replay_fn is None:
                return {"fails": False, "case": None, "observed": "no concretiser/replay for this target"}
            try:
                case = c.concretize(model, vcx.params, Sx)
            except Exception:
                return {"fails": False, "case": None, "observed": "concretize error: " + traceback.format_exc()[-400:]}
            try:
                out = replay_fn(case)
            except Exception:
                return {"fails": False, "case": case, "observed": "replay crashed: " + traceback.format_exc()[-400:], "crash": True}
            out["case"] = case
            return out
        return validate

    pending = []
    for vc in vcs:
        r = discharge(S, vc, timeout_ms=timeout_ms)
        results.append({"name": r.name, "status": r.status, "backend": r.backend, "seconds": r.seconds, "path": r.path, "detail": r.detail,
                        "confirmed": None, "artefacts": []})
        if r.status != "unsat":
            pending.append((len(results) - 1, vc))
    if pending:
        # refutation mode first (fast), full solver budget only for what stays open
        names = sorted(set(vc.name for (_, vc) in pending))
        ref = refute_finite(reg, c, names, validate_for)
        for (idx, vc) in pending:
            rr = ref[vc.name]
            results[idx]["detail"] += "; refutation: " + " | ".join(rr["log"])[:600]
            results[idx]["seconds"] += rr["seconds"] / max(1, sum(1 for (_, v) in pending if v.name == vc.name))
            results[idx]["artefacts"] = rr["artefacts"]
            if rr["confirmed"] is not None:
                results[idx]["status"] = "sat"
                results[idx]["backend"] = rr.get("backend", "z3 finite scope")
                results[idx]["confirmed"] = rr["confirmed"]
            else:
                r2 = discharge_long(S, vc, timeout_ms * 3)
                results[idx]["seconds"] += r2.seconds
                results[idx]["detail"] += "; " + r2.detail
                if r2.status == "unsat":
                    results[idx]["status"] = "unsat"
                    results[idx]["backend"] = r2.backend
    return {"key": key, "status": "ok", "results": results, "info": info, "gen_s": gen_s, "file": c.file, "qualname": c.qualname}


def verify_all(mod_names: List[str], keys: List[str], workers: int = 16, timeout_ms: int = 30000, replays: Dict[str, str] = None):
    out = {}
    replays = replays or {}
    with ProcessPoolExecutor(max_workers=min(workers, max(1, len(keys)))) as ex:
        futs = {k: ex.submit(verify_target, mod_names, k, timeout_ms, replays.get(k, "")) for k in keys}
        for k, f in futs.items():
            out[k] = f.result()
    return out


if __name__ == "__main__":
    mods = sys.argv[1].split(",")
    keys = sys.argv[2].split(",")
    res = verify_all(mods, keys)
    for k, r in res.items():
        print("==", k, r["status"], r.get("detail", "")[:2000], r.get("info"))
        for x in r["results"]:
            print("   ", x["status"], x["backend"], "%.2fs" % x["seconds"], x["name"], x["path"], x["detail"])
            if x.get("confirmed") or x.get("artefacts"):
                print("      confirmed:", str(x.get("confirmed"))[:1500], "artefacts:", str(x.get("artefacts"))[:1500])
