"""verify a list of contracts: generate VCs from the current /repo source, discharge them in a process pool.

Phase A (one task per target): symbolic execution, canaries, quick discharge of every VC (e-matching 5 s, z3 6 s).
Phase B (one task per open VC, so all cores are used when something is wrong): finite-scope refutation with
native replay, then the full solver budget (z3, then cvc5 on z3's `unknown`).
"""
from __future__ import annotations

import importlib
import os
import sys
import time
import traceback
from concurrent.futures import ProcessPoolExecutor, TimeoutError as FuturesTimeout
from typing import Dict, List

import z3

from .contracts import Registry, generate_vcs, discharge, discharge_long, refute_finite, z3_check, VCResult, Contract
from .engine import Unsupported
from .values import Sorts

LONG_MS = int(os.environ.get("PYVC_LONG_MS", "25000"))


def _registry(mod_names: List[str]) -> Registry:
    reg = Registry()
    for m in mod_names:
        importlib.import_module(m).register(reg)
    return reg


def phase_a(mod_names: List[str], key: str, timeout_ms: int):
    reg = _registry(mod_names)
    c = reg.contracts[key]
    S = Sorts()
    t0 = time.time()
    try:
        vcs, info = generate_vcs(reg, c, S)
    except Unsupported as ex:
        return {"key": key, "status": "untranslatable", "detail": str(ex), "results": [], "info": {}, "gen_s": time.time() - t0}
    except Exception:
        return {"key": key, "status": "engine-error", "detail": traceback.format_exc()[-1500:], "results": [], "info": {}, "gen_s": time.time() - t0}
    gen_s = time.time() - t0
    # vacuity guard: behind every distinct path condition a canary `ensures False` must NOT be provable
    seen_pc = {}
    info["canaries"] = 0
    info["vacuous_paths"] = []
    info["infeasible_paths"] = 0
    for vc in vcs:
        if isinstance(vc.formula, str):
            continue
        kpc = tuple(f.get_id() for f in vc.pc)
        if kpc in seen_pc:
            continue
        info["canaries"] += 1
        cr, cdt, _, _ = z3_check(S, vc.pc, z3.BoolVal(False), 1500, mbqi=False)
        seen_pc[kpc] = (cr == "unsat")
        if cr == "unsat":
            info["infeasible_paths"] += 1  # a path the pruner kept but that cannot be taken; vacuity is judged per obligation below
    # second vacuity guard: ground-expand the quantified facts of the path condition over a tiny universe that contains None and the
    # string constants; `unsat` there means the assumed facts contradict each other (instances are consequences), which e-matching may
    # or may not stumble on.  Quick tier: the two longest path conditions of the target (they carry the most axioms); thorough: all.
    from .modelfind import ground_model_search
    info["ground_canaries"] = 0
    info["inconsistent_paths"] = []
    cand = {}
    for vc in vcs:
        if isinstance(vc.formula, str):
            continue
        cand.setdefault(tuple(f.get_id() for f in vc.pc), vc)
    order = sorted(cand.values(), key=lambda v: -len(v.pc))
    if os.environ.get("VERIF_TIER_ACTIVE", "quick") != "thorough":
        order = order[:2]
    for vc in order:
        try:
            gr = ground_model_search(S, list(vc.pc), None, k=2, timeout_ms=4000, closure=False)
        except Exception:
            continue
        info["ground_canaries"] += 1
        if gr[0] == "unsat":
            info["inconsistent_paths"].append(vc.path)
    results = []
    for idx, vc in enumerate(vcs):
        r = discharge(S, vc, timeout_ms=timeout_ms)
        infeasible = (not isinstance(vc.formula, str)) and seen_pc.get(tuple(f.get_id() for f in vc.pc), False)
        results.append({"name": r.name, "status": r.status, "backend": r.backend, "seconds": r.seconds, "path": r.path, "detail": r.detail,
                        "confirmed": None, "artefacts": [], "index": idx, "infeasible_path": infeasible})
    # an obligation ALL of whose VCs sit on contradictory path conditions proves nothing: that is vacuity (e.g. an inconsistent loop invariant)
    by = {}
    for x in results:
        by.setdefault(x["name"], []).append(x["infeasible_path"])
    for nm, flags in by.items():
        if flags and all(flags):
            info["vacuous_paths"].append(nm)
    return {"key": key, "status": "ok", "results": results, "info": info, "gen_s": gen_s, "file": c.file, "qualname": c.qualname}


def phase_b(mod_names: List[str], key: str, index: int, name: str, replay: str):
    """one open VC: finite-scope refutation (candidates replayed natively), then the long solver budget."""
    reg = _registry(mod_names)
    c = reg.contracts[key]
    replay_fn = None
    if replay:
        rm, rf = replay.split(":")
        replay_fn = getattr(importlib.import_module(rm), rf)

    def validate_for(Sx, vcx):
        def validate(model):
            if not getattr(c, "concretize", None) or replay_fn is None:
                return {"fails": False, "case": None, "observed": "no concretiser/replay for this target"}
            try:
                case = c.concretize(model, vcx.params, Sx)
            except Exception:
                return {"fails": False, "case": None, "observed": "concretize error: " + traceback.format_exc()[-400:]}
            try:
                out = replay_fn(case)
            except Exception:
                return {"fails": False, "case": case, "observed": "replay crashed: " + traceback.format_exc()[-400:], "crash": True}
            out["case"] = case
            return out
        return validate

    out = {"status": "unknown", "backend": "", "seconds": 0.0, "detail": "", "confirmed": None, "artefacts": []}
    if getattr(c, "concretize", None) and replay_fn is not None:
        ref = refute_finite(reg, c, [name], validate_for)[name]
        out["detail"] += "refutation: " + " | ".join(ref["log"])[:600]
        out["seconds"] += ref["seconds"]
        out["artefacts"] = ref["artefacts"]
        if ref["confirmed"] is not None:
            out.update(status="sat", backend=ref.get("backend", "z3 finite scope"), confirmed=ref["confirmed"])
            return out
    S = Sorts()
    vcs, _ = generate_vcs(reg, c, S)
    if index >= len(vcs) or vcs[index].name != name:
        out["detail"] += "; regenerated VC list differs (index %d)" % index
        return out
    r2 = discharge_long(S, vcs[index], LONG_MS)
    out["seconds"] += r2.seconds
    out["detail"] += "; " + r2.detail
    if r2.status == "unsat":
        out.update(status="unsat", backend=r2.backend)
    return out


def phase_c(mod_names: List[str], key: str, index: int, name: str):
    """last resort, run alone (no CPU contention): one open VC with a long budget, so verdicts do not flip on a busy machine."""
    reg = _registry(mod_names)
    c = reg.contracts[key]
    S = Sorts()
    vcs, _ = generate_vcs(reg, c, S)
    if index >= len(vcs) or vcs[index].name != name:
        return {"status": "unknown", "detail": "regenerated VC list differs"}
    vc = vcs[index]
    goal = z3.BoolVal(False) if vc.formula is False else vc.formula
    for (mb, ms) in ((False, 20000), (True, 40000)):  # (reseeded retries in phase B took over most of this stage's job)
        r, dt, _, _ = z3_check(S, vc.pc, goal, ms, mbqi=mb)
        if r == "unsat":
            return {"status": "unsat", "backend": "z3(solo%s)" % ("" if mb else ",e-matching"), "seconds": dt, "detail": "solo retry: unsat"}
    return {"status": "unknown", "seconds": dt, "detail": "solo retry: %s" % r}


def verify_all(mod_names: List[str], keys: List[str], workers: int = 16, timeout_ms: int = 30000, replays: Dict[str, str] = None):
    out = {}
    replays = replays or {}
    workers = max(2, min(workers, os.cpu_count() or 2))
    # wall-clock watchdog: z3 does not honour its own timeout in every phase (a changed body once kept a worker busy for hours);
    # a target / VC that overruns is UNDECIDED (never a verdict), and the stuck worker is killed at the end
    a_limit = float(os.environ.get("PYVC_TARGET_WALL_S", "900"))
    b_limit = float(os.environ.get("PYVC_VC_WALL_S", "420"))
    t_start = time.time()
    ex = ProcessPoolExecutor(max_workers=workers)
    try:
        futs = {k: ex.submit(phase_a, mod_names, k, timeout_ms) for k in keys}
        for k, f in futs.items():
            try:
                out[k] = f.result(timeout=max(5.0, a_limit * max(1, (len(keys) + workers - 1) // workers) - (time.time() - t_start)))
            except FuturesTimeout:
                out[k] = {"key": k, "status": "engine-timeout", "detail": "symbolic execution / quick discharge exceeded the wall limit of %ds" % a_limit, "results": [], "info": {}, "gen_s": a_limit}
            except Exception:
                out[k] = {"key": k, "status": "engine-error", "detail": "worker died: " + traceback.format_exc()[-600:], "results": [], "info": {}, "gen_s": 0.0}
        tasks = []
        for k in keys:
            r = out[k]
            if r["status"] != "ok":
                continue
            for x in r["results"]:
                if x["status"] != "unsat":
                    tasks.append((k, x, ex.submit(phase_b, mod_names, k, x["index"], x["name"], replays.get(k, ""))))
        tb = time.time()
        for (k, x, f) in tasks:
            try:
                b = f.result(timeout=max(5.0, b_limit * max(1, (len(tasks) + workers - 1) // workers) - (time.time() - tb)))
            except FuturesTimeout:
                b = {"status": "unknown", "backend": "", "seconds": b_limit, "detail": "phase B exceeded the wall limit", "confirmed": None, "artefacts": []}
            except Exception:
                b = {"status": "unknown", "backend": "", "seconds": 0.0, "detail": "phase B crashed: " + traceback.format_exc()[-300:], "confirmed": None, "artefacts": []}
            x["seconds"] += b["seconds"]
            x["detail"] += "; " + b["detail"]
            x["artefacts"] = b["artefacts"]
            if b["status"] in ("sat", "unsat"):
                x["status"] = b["status"]
                x["backend"] = b["backend"] or x["backend"]
                x["confirmed"] = b["confirmed"]
    finally:
        procs = list(getattr(ex, "_processes", {}).values())
        ex.shutdown(wait=False, cancel_futures=True)
        for pr in procs:
            try:
                if pr.is_alive():
                    pr.kill()
            except Exception:
                pass
    # phase C: whatever is still open is retried alone, sequentially (at most a handful: a broken tree fails many VCs, and
    # those need no retry once one of them has a confirmed counterexample)
    recorded = set(filter(None, os.environ.get("PYVC_RECORDED_FINDINGS", "").split("\x1f")))  # obligations of recorded proof-side findings: expected open, their native witness is replayed instead of a retry
    still = [(k, x) for k in keys if out[k]["status"] == "ok" for x in out[k]["results"] if x["status"] not in ("unsat", "sat") and x["name"] not in recorded]
    any_confirmed = any(x.get("confirmed") for k in keys if out[k]["status"] == "ok" for x in out[k]["results"])
    if still and not any_confirmed and len(still) <= 6:
        ex1 = ProcessPoolExecutor(max_workers=1)
        try:
            for (k, x) in still:
                try:
                    cres = ex1.submit(phase_c, mod_names, k, x["index"], x["name"]).result(timeout=240)
                except FuturesTimeout:
                    cres = {"status": "unknown", "detail": "phase C exceeded the wall limit"}
                    for pr in list(getattr(ex1, "_processes", {}).values()):
                        pr.kill()
                    ex1.shutdown(wait=False, cancel_futures=True)
                    ex1 = ProcessPoolExecutor(max_workers=1)
                except Exception:
                    cres = {"status": "unknown", "detail": "phase C crashed"}
                x["detail"] += "; " + cres.get("detail", "")
                x["seconds"] += cres.get("seconds", 0.0)
                if cres["status"] == "unsat":
                    x["status"] = "unsat"
                    x["backend"] = cres["backend"]
        finally:
            for pr in list(getattr(ex1, "_processes", {}).values()):
                try:
                    pr.kill()
                except Exception:
                    pass
            ex1.shutdown(wait=False, cancel_futures=True)
    return out


if __name__ == "__main__":
    mods = sys.argv[1].split(",")
    keys = sys.argv[2].split(",")
    res = verify_all(mods, keys)
    for k, r in res.items():
        print("==", k, r["status"], r.get("detail", "")[:2000], r.get("info"))
        for x in r["results"]:
            print("   ", x["status"], x["backend"], "%.2fs" % x["seconds"], x["name"], x["path"], x["detail"])
            if x.get("confirmed") or x.get("artefacts"):
                print("      confirmed:", str(x.get("confirmed"))[:1500], "artefacts:", str(x.get("artefacts"))[:1500])
