#!/bin/bash
# round 4: usage tools_seeded_batch2.sh <m1..m4>
cd /verif
TAG=$1
for d in /tmp/mutout4-$TAG/C??; do
  P=$(basename $d)
  [ -f $d/patch.diff ] && [ -f $d/demo.py ] || continue
  ./tools_seeded.sh $d $P r4$TAG-$P > /tmp/seeded_r4$TAG-$P.log 2>&1
  echo "== r4$TAG-$P: $(grep -E 'demo_pristine|demo_patched_exit|check_exit' /verif/seeded/r4$TAG-$P/result.txt | tr '\n' ' ')"
done
