"""Proof parts (pyvc) attached to hybrid properties whose props/CNN.py only runs the bounded stand-in.
vlib.core.main calls attach(rep) after mod.run() when the module produced no obligations itself."""
from pyvc.check import run_proofs, attach_bounded_witness

RL = ["%s.replace_leaves" % c for c in ("ProjectNode", "SelectRowsNode", "SelectColumnsNode", "DropColumnsNode", "OrderRowsNode", "RenameColumnsNode",
                                         "ConvertRecordsNode", "ConcatRowsNode", "MapColumnsNode", "ExtendNode")]

TABLE = {
    "C07": {
        "mods": ["contracts.c06_builders"], "keys": RL, "groups_extra": [(["contracts.c06_merge"], ["try_to_merge_ops"])], "replays": None,
        "explanation": ("hybrid: PROVED (pyvc, unbounded) -- every replace_leaves rebuilds its node from the replaced sources and EVERY stored constructor argument, binding the "
                        "builder's real signature (10 node classes; NaturalJoinNode / TableDescription / SQLNode not yet under contract), and the extend merge that composition re-applies is meaning preserving (try_to_merge_ops lemma, shared with C06); BOUNDED -- the composition "
                        "routes, associativity and dom/cod are checked at run time on the real code over the enumerated scope"),
        "assumptions": ["builders abstracted at call sites as uninterpreted functions of all their arguments (their own bodies are under contract in C06)",
                        "source.replace_leaves(m) abstracted as the function replace_leaves(source, m) the per-class obligations define"],
    },
    "C01": {
        "mods": ["contracts.glue"],
        "keys": ["SQLModel.select_rows_to_near_sql", "SQLModel.select_columns_to_near_sql", "SQLModel.rename_to_near_sql", "SQLModel.map_columns_to_near_sql", "SQLModel.project_to_near_sql", "SQLModel.order_to_near_sql",
                 "SQLModel.extend_to_near_sql:window-clause", "SQLModel.extend_to_near_sql:term-assembly", "SQLiteModel._emit_right_join_as_left_join"],
        "groups_extra": [(["contracts.c04_format"], ["SQLModel._indent_and_sep_terms"]), (["contracts.c14_quote"], ["SQLModel.quote_identifier"])],
        "explanation": ("hybrid: PROVED (pyvc) -- what the SQL generator writes for eight operator translations, for all nodes and all requested column sets: select_rows (requested columns passed through, "
                        "WHERE sql(expr)), select_columns (terms narrowed in place, '*' stays '*'), rename / map_columns (new = quoted old, untouched requested columns passed through, deleted ones dropped), project (GROUP BY names ALL group keys, none without keys), "
                        "order_rows (ORDER BY / DESC / LIMIT, limit=0 included), extend (OVER clause lists all partition and order columns with DESC on the reversed ones; every term is sql(expr)+clause and "
                        "declares the window columns as dependencies), the SQLite right-join emulation (sources and keys swapped), the term layout routine and identifier quoting. These obligations say "
                        "WHICH pieces are written WHERE; that SQLite then computes what Pandas computes (null semantics, aggregation, joins, expression translation `expr_to_sql`, natural_join / concat_rows / "
                        "convert_records / table SQL, near_sql rendering) is NOT proved: BOUNDED -- read_query(to_sql(ops)) against ops.eval(data) over every operator pair (triples in thorough) and small tables"),
        "assumptions": ["strings uninterpreted (cancellative +, join, repeat); expr_to_sql a function of the expression; NearSQLUnaryStep keeps the terms / suffix it is given; columns_used_from_sources as proved in C10"],
    },
    "C03": {
        "mods": ["contracts.glue"],
        "keys": ["PolarsModel._table_step", "PandasModel._table_step", "PolarsModel._order_rows_step", "PandasModel._order_rows_step", "PandasModel._select_columns_step", "PandasModel._rename_columns_step", "PandasModel._select_rows_step"],
        "explanation": ("hybrid: PROVED (pyvc) -- for the steps whose executor code is within reach, BOTH executors hand their frame library the same thing: the table step narrows and orders the input to the "
                        "declared columns (eager or lazy Polars input, extra or permuted columns), order_rows sorts by exactly the order columns, ascending except on the reversed ones, and cuts to the limit "
                        "(Pandas sort_values / iloc, Polars sort / head, stated through the same spec function), select_columns / rename_columns / select_rows use the node's own arguments. That the two "
                        "libraries then compute the same values (null handling, joins, windows, aggregation -- extend / project / natural_join / concat_rows / convert_records steps) is NOT proved: "
                        "BOUNDED -- the Polars executor (eager / lazy, both lazy-eval modes, wide inputs) against the Pandas result whenever it returns, over every operator pair and small tables"),
        "assumptions": ["pandas / polars: sort_values, sort, head, iloc, loc, select, rename, reset_index are functions of their arguments (library contracts assumed)"],
    },
    "C08": {
        "mods": ["contracts.glue"], "keys": ["PandasModel._select_columns_step", "PandasModel._rename_columns_step", "PolarsModel._table_step", "PandasModel._table_step", "SQLModel.select_rows_to_near_sql", "SQLModel.rename_to_near_sql", "SQLModel.map_columns_to_near_sql", "SQLModel.select_columns_to_near_sql"],
        "explanation": ("hybrid: PROVED (pyvc) -- SQLModel.select_rows_to_near_sql selects exactly the requested columns (all of the step's columns by default), each passed through unchanged, and filters by the node's own expression (suffix WHERE indent+sql(expr)); select_columns_to_near_sql narrows the source query's own term dictionary to the selected columns that are needed and leaves a '*' selection a '*' selection (never a non-dictionary term collection); rename_to_near_sql / map_columns_to_near_sql select every renamed column as new = quoted old, pass exactly the requested untouched source columns through and drop the deleted ones; the column-shaping glue hands the frame library exactly the declared columns: Pandas _table_step and Polars _table_step ALWAYS narrow and order the "
                        "input to op.column_names (eager or lazy, extra or permuted input columns), _select_columns_step selects column_selection in that order, _rename_columns_step renames with the "
                        "node's mapping; BOUNDED -- declared columns = returned columns at every node of every enumerated pipeline on Pandas, Polars and SQLite (extend / project / join / convert_records "
                        "steps and all of the SQL generation are not under contract)"),
        "assumptions": ["pandas / polars: df[cols], df.loc[:, cols], select(cols), rename(columns=m) are functions of their arguments (library contracts assumed)"],
    },
    "C09": {
        "mods": ["contracts.glue"], "keys": ["PandasModel._select_rows_step", "SQLModel.project_to_near_sql"],
        "groups_extra": [(["contracts.c06_extend"], ["ViewRepresentation.extend_parsed_:merge-decision[partition_by=1]", "ViewRepresentation.extend_parsed_:merge-decision[partition_by=list]"])],
        "explanation": ("hybrid: PROVED (pyvc) -- the builder merges a windowed extend into the previous extend only when both have the same partition (partition_by=1 only with 'no partition columns'), order, reverse and windowed-ness, so every row's value is computed over the partition its own step declares (region contract on extend_parsed_, shared with C06); SQLModel.project_to_near_sql (the GROUP BY text of every SQL dialect): the GROUP BY clause names ALL group keys of the node, quoted and in order, "
                        "independently of the columns later steps still use, every group key is a selected term, and there is no GROUP BY exactly when the node has no group keys; Pandas _select_rows_step returns clean_copy(rows selected by the node's expression) i.e. a frame with a fresh default index (a gapped index after a "
                        "filter is what misaligns a following windowed extend); BOUNDED -- row counts of project / windowed extend against distinct key tuples of the materialised input on Pandas, "
                        "Polars, SQLite (the Pandas / Polars grouping code -- groupby / over -- and the windowed-extend SQL are not under contract)"),
        "assumptions": ["pandas: reset_index(drop=True, inplace=False) gives a default index; expr.act_on is a function of (expression, frame)"],
    },
    "C16": {
        "mods": ["contracts.glue"], "keys": ["SQLiteModel._emit_right_join_as_left_join"],
        "explanation": ("hybrid: PROVED (pyvc) -- the SQLite right-join emulation hands the generic translator a LEFT join whose sources AND join keys are swapped, with "
                        "left_is_first=False, produced columns unchanged and the caller's node untouched; BOUNDED -- every backend's join result against a reference join and "
                        "a hand-written native SQL join over the enumerated scope (incl. the full-join emulation, pandas merge, polars join, which are not under contract)"),
        "assumptions": ["copy.copy is a shallow copy; DBModel.natural_join_to_near_sql is a function of the node it receives"],
    },
    "C26": {
        "mods": ["contracts.c06_builders"], "groups_extra": [(["contracts.c26_ctors"], ["NaturalJoinNode.__init__", "SelectColumnsNode.__init__", "DropColumnsNode.__init__", "OrderRowsNode.__init__"]),
                                                               (["contracts.c26_parse"], ["parse_assignments_in_context"])],
        "keys": ["ViewRepresentation.is_trivial_when_intermediate_", "OrderRowsNode.is_trivial_when_intermediate_"] + ["ViewRepresentation." + b for b in
                 ("natural_join", "concat_rows", "select_rows_parsed_", "drop_columns", "map_columns", "rename_columns", "order_rows", "convert_records", "select_columns", "project_parsed_")],
        "explanation": ("hybrid: PROVED (pyvc) -- (0) parse_assignments_in_context raises ValueError exactly when an assignment reads a column that another assignment of the same step produces (self-update allowed) and otherwise returns every assignment parsed under its key; (i) four constructors (NaturalJoinNode, SelectColumnsNode, DropColumnsNode, OrderRowsNode): accepted => every documented rule holds "
                        "(join keys exist on both sides, requested common-column check passes, only known columns, reverse within order columns) and rejected with the rule's exception kind "
                        "=> some rule is violated; (ii) the part of the property that concerns simplifiable prefixes: every builder hands ALL its arguments (join-key check flag included) "
                        "to the same builder of the source when an order_rows without limit is eliminated, and otherwise to the node constructor, and select_columns accepts only "
                        "columns of the step it is applied to also when it collapses onto an earlier select/drop; so the constructor's verdict is the verdict on the unsimplified "
                        "sequence. The remaining rule checks (ExtendNode / ProjectNode / ConcatRowsNode / Map / Rename __init__) are NOT under contract: "
                        "BOUNDED -- every enumerated prefix x one violating and one conforming step per rule, rejected at build time <=> the rule predicate on the materialised description"),
        "assumptions": ["node constructors abstracted as new_C(all arguments) or a rejection at builder call sites"],
    },
    "C25": {
        "mods": ["contracts.c25_cache"], "keys": ["ResultCache.get", "ResultCache.store"],
        "explanation": ("hybrid: PROVED (pyvc) -- ResultCache.get hits only for a stored key, returns a NEW object whose content equals the stored result and leaves the cache and "
                        "every existing frame unchanged; ResultCache.store leaves an equal stored result alone, otherwise stores a PRIVATE copy under exactly that key, never "
                        "aliasing the caller's frame (frames are heap objects, so aliasing is visible); BOUNDED -- make_cache_key / hash_data_frame (keys differ whenever any "
                        "value, column name, shape or row order differs) and store/get histories on the real code"),
        "assumptions": ["make_cache_key is a function of (model name, sql, table names and CONTENTS) -- its body is only in the bounded run",
                        "pandas: df.copy() is a new object with equal content; a.equals(b) <=> same content", "data_cache is never None (the debug store is enabled, as constructed)"],
    },
    "C18": {
        "mods": ["contracts.glue"], "keys": ["SQLModel.order_to_near_sql", "PandasModel._order_rows_step", "PolarsModel._order_rows_step"],
        "explanation": ("hybrid: PROVED (pyvc) -- SQLModel.order_to_near_sql hands the formatter exactly the quoted order columns in order, with ' DESC' appended exactly on the reversed "
                        "ones, the suffix starts with ORDER BY when there are order columns and ends with 'LIMIT <n>' exactly when a limit is set (limit=0 included); the Pandas and Polars order_rows steps sort the evaluated source by exactly the order columns, ascending except on the reversed ones, and cut to the limit; BOUNDED -- permutation / "
                        "re-index invariance and sortedness+limit of the results on Pandas, Polars, SQLite over the enumerated scope (sort_values / sort / head / iloc themselves are assumed library contracts)"),
        "assumptions": ["string + is an uninterpreted cancellative concatenation; quote_identifier, _indent_and_sep_terms, NearSQLUnaryStep keep what they are given (near_sql rendering not under contract)"],
    },
    "C04": {
        "mods": ["contracts.c04_format"], "keys": ["SQLModel._indent_and_sep_terms"],
        "groups_extra": [(["contracts.glue"], ["SQLModel.select_rows_to_near_sql", "SQLModel.project_to_near_sql", "SQLModel.rename_to_near_sql", "SQLModel.map_columns_to_near_sql", "SQLModel.order_to_near_sql"])],
        "explanation": ("hybrid: PROVED (pyvc) -- SQLModel._indent_and_sep_terms, the routine that lays out every SELECT / GROUP BY / ORDER BY term list: for every option setting (indent text, leading or "
                        "trailing commas, explicit or default options) the result has exactly one line per term and line i is term i with indent and separator decoration only -- options never drop, repeat "
                        "or reorder a term (this also backs the contract assumed for it in the C09 / C18 / C27 text obligations); the key under which CTE elimination (use_cte_elim) may share a step's query is an injective function of the NODE ITSELF, printed with its sources, for the select_rows / project / rename / map_columns / order_rows translations -- two different sub-pipelines can never share a CTE through these steps. NOT under contract: WITH vs nested sub-queries, annotations, CTE elimination, "
                        "the extend-merge optimisation. BOUNDED -- every option combination x the enumerated corpus must return the same table as the default options on SQLite (PostgreSQL text on the surrogate)"),
        "assumptions": ["strings uninterpreted: + cancellative concatenation, ' ' * k and len(str) uninterpreted"],
    },
    "C22": {
        "mods": ["contracts.c22_schema"], "keys": ["SchemaRaises.check_return", "SchemaRaises.check_args"],
        "explanation": ("hybrid: PROVED (pyvc, two loop invariants) -- SchemaRaises.check_args raises TypeError EXACTLY when the switch is on, argument specifications were declared and some declared "
                        "argument violates its specification (positional: matched through the parameter names; keyword: looked up by name) or is not supplied at all, and raises nothing else; "
                        "SchemaRaises.check_return raises TypeError exactly when the switch is on and the return value violates the return specification. `_check_spec` is abstracted as "
                        "'None iff conforms(spec, value)'. BOUNDED -- conforms itself (types, type sets, data-frame column schemas, null handling), the decorator wiring (__call__), SchemaMock and "
                        "the switch, for all specifications of depth <= 2 x argument/return values on pandas and polars frames"),
        "assumptions": ["_check_spec(spec, value) returns None exactly when value conforms to spec; SchemaCheckSwitch() is the process-wide singleton"],
    },
    "C14": {
        "mods": ["contracts.c14_quote"], "keys": ["SQLModel.quote_identifier"],
        "explanation": ("hybrid: PROVED (pyvc) -- SQLModel.quote_identifier (inherited by every dialect) raises ValueError exactly when the identifier contains the dialect's identifier quote and "
                        "otherwise returns quote + identifier + quote, i.e. the identifier verbatim and free of the closing delimiter (strings uninterpreted: substring test and concatenation are "
                        "uninterpreted symbols). NOT under contract: quote_string (doubling by re.sub -- undoubling after doubling needs induction over strings, undecided by z3 and cvc5), value_to_sql, "
                        "the dialect overrides. BOUNDED -- all strings up to the stated length over a special-character alphabet in every syntactic position, executed and read back on SQLite, tokenised by dialect lexers"),
        "assumptions": ["`a in b` on strings is an uninterpreted relation; + is an uninterpreted cancellative concatenation"],
    },
    "C17": {
        "mods": ["contracts.c17_recordmap"], "keys": ["RecordMap.__init__", "RecordMap.inverse", "RecordSpecification.map_to_rows", "RecordSpecification.map_from_rows"],
        "groups_extra": [(["contracts.c19_recordmap"], ["RecordMap.transform"])],
        "explanation": ("hybrid: PROVED (pyvc) -- the part of the record-map algebra that does not depend on the frame library: RecordMap.__init__ stores the two specifications with row-record "
                        "specifications normalised to None, keeps at least one side, sets columns_needed / columns_produced as documented and writes only the new object; RecordMap.inverse swaps the "
                        "two sides, so the inverse needs exactly what this map produces and produces exactly what it needs, and leaves this map unchanged; map_to_rows / map_from_rows put the same "
                        "specification on opposite sides; RecordMap.transform computes rowrecs_to_blocks(blocks_out) after blocks_to_rowrecs(blocks_in) on an index-free copy. BOUNDED -- that the two "
                        "conversion routines really are mutually inverse on conforming data, compose(), >> and Pandas == Polars, for all small strict control tables and conforming data tables "
                        "(blocks_to_rowrecs / rowrecs_to_blocks of the data models are not under contract)"),
        "assumptions": ["ShiftPipeAction.__init__ does nothing; frames and control tables are opaque values with a row count"],
    },
    "C27": {
        "mods": ["contracts.glue"], "keys": ["SQLModel.extend_to_near_sql:window-clause", "SQLModel.extend_to_near_sql:term-assembly"],
        "groups_extra": [(["contracts.c06_extend"], ["ViewRepresentation.extend_parsed_:merge-decision[partition_by=1]", "ViewRepresentation.extend_parsed_:merge-decision[partition_by=list]"])],
        "explanation": ("hybrid: PROVED (pyvc, region contracts) -- the builder merges two consecutive extends only when partition, order_by (as a list, priority included), reverse and windowed-ness coincide (extend_parsed_ merge decision, shared with C06); the window clause every SQL dialect gets from SQLModel.extend_to_near_sql: no OVER clause exactly for a row-wise extend; "
                        "PARTITION BY lists ALL partition columns, quoted, in order; ORDER BY lists ALL order columns in the declared order with ' DESC' exactly on the reversed ones; the clause text is "
                        "' OVER ( ' [PARTITION BY ...] [ORDER BY ...] ' ) ' and the declared dependencies are exactly partition + order columns; every computed column's SQL term is sql(expression) followed by that clause and its declared dependencies are the columns it reads plus ALL window columns (second region, loop invariant) -- which is what stops the SQL-level extend merge from folding a windowed extend into an extend that redefines one of its window columns. The verified text is the statement range "
                        "`window_term = \"\"` .. `terms = OrderedDict()` of the real function, re-extracted on every run; the rest of the function (sub-query, term assembly, merge into the sub-query) is dropped. "
                        "BOUNDED -- every window function on Pandas, Polars and SQLite against a reference implementation over all small tables with total orders, and two consecutive extends with permuted order priority "
                        "(the Pandas / Polars window code and the per-function SQL are not under contract)"),
        "assumptions": ["string + is an uninterpreted cancellative concatenation evaluated left to right; sep.join(list) is an uninterpreted function of separator and list; quote_identifier is a function of the name"],
    },
    "C19": {
        "mods": ["contracts.glue", "contracts.c06_builders"], "keys": ["PandasModel.clean_copy", "PandasModel._table_step"] + RL,
        "groups_extra": [(["contracts.c19_recordmap"], ["RecordMap.transform"])],
        "explanation": ("hybrid: PROVED (pyvc) -- cdata.RecordMap.transform (behind `frame >> record_map`, record_map(frame) and convert_records) never hands the caller's frame to anything that may "
                        "modify it (drop_indices, the record conversion routines): it works on clean_copy(X) and returns a frame the caller did not supply, also on the rejecting paths; every returning path of PandasModelBase._table_step (the only place a caller's frame enters the Pandas executor) returns "
                        "clean_copy(df.loc[:, declared columns]) and clean_copy returns reset_index(drop=True, inplace=False), i.e. a new frame under the assumed pandas contract; composition (replace_leaves of 10 node classes) never modifies the node being rebuilt, so a pipeline evaluates the same after it was used in a composition; "
                        "BOUNDED -- deep snapshots of caller frames around eval/transform/ex/>> on Pandas and Polars, repeatability"),
        "assumptions": ["pandas: reset_index(drop=True, inplace=False) returns a new frame; df.loc[:, cols] is a function of (df, cols)",
                        "the other _X_step functions write only to frames obtained from _eval_value_source (not under contract; bounded run only)"],
    },
}


_PRINT = {
    "mods": ["contracts.c12_print"], "keys": ["Expression.to_python"],
    "proof_findings": {"Expression.to_python.unary-infix, parentheses requested => the whole text is wrapped and flagged (a unary minus used as base of ** or as receiver must stay grouped)": "contracts.c12_print:witness_unary_not_grouped"},
    "explanation": ("hybrid: PROVED (pyvc, all expressions: any operator name, any number of operands, any operand texts) -- the grouping protocol of Expression.to_python, the printer of every operator / method / "
                    "function-call expression: an infix expression prints EVERY operand with want_inline_parens=True, in order, joined by ' op ', and is itself wrapped in parentheses and flagged exactly "
                    "when its parent asked for it; a unary operator and a method receiver omit the parentheses around their operand only when the operand is flagged as wrapped (or, for receivers, is a column "
                    "reference); function form is op(arguments in order); is_in_parens is returned only with text of the form '(' + ... + ')'. One clause does NOT hold on the pinned tree and is a recorded "
                    "finding with a native witness: a unary infix expression ignores want_inline_parens, so (-x) ** 2 prints as -(x) ** 2. NOT proved: that delimited text is read back to the same "
                    "tree by the lark grammar and the tree walker, Value / ColumnReference / ListTerm / DictTerm printing, the pipeline-level printers, pickle: BOUNDED -- the enumerated expression "
                    "trees / texts of this property's run-time contract check"),
    "assumptions": ["recursive calls ai.to_python(want_inline_parens=b) return SOME PythonText that is a function of (ai, b) (nothing assumed about its text or flag)",
                    "PythonText is an immutable pair (s, is_in_parens); str(p) is p.s (PythonText.__init__ / __str__ read, not verified)",
                    "strings uninterpreted: cancellative +, sep.join(list) an uninterpreted function of separator and list",
                    "method form with further arguments: that piece i of the joined list is the text of argument i+1 is not part of the obligation (slice + two comprehensions: z3 unknown)"],
}
TABLE["C12"] = _PRINT
TABLE["C13"] = _PRINT


def attach(rep, tier, seed):
    cfg = TABLE.get(rep.property_id)
    if not cfg or rep.obligations:
        return
    if cfg.get("proof_findings"):
        import os
        os.environ["PYVC_RECORDED_FINDINGS"] = "\x1f".join(cfg["proof_findings"])
    run_proofs(rep, cfg["mods"], cfg["keys"], cfg.get("replays"))
    for (mods, keys) in cfg.get("groups_extra", []):  # separate registries: e.g. verified constructors vs their call-site abstraction
        rp = {}
        if "try_to_merge_ops" in keys:
            rp["try_to_merge_ops"] = "contracts.c06_native:replay_merge"
        for k in keys:
            if ":merge-decision" in k:
                rp[k] = "contracts.c06_native:replay_merge_decision"
        run_proofs(rep, mods, keys, rp or None)
    if cfg.get("explanation"):
        rep.explanation = cfg["explanation"]
    rep.assumptions += cfg.get("assumptions", [])
    if cfg.get("proof_findings"):
        import importlib
        from pyvc.check import proof_findings
        wits = {}
        for name, ref in cfg["proof_findings"].items():
            m, f_ = ref.split(":")
            wits[name] = getattr(importlib.import_module(m), f_)
        proof_findings(rep, wits)
    attach_bounded_witness(rep)
