"""Proof parts (pyvc) attached to hybrid properties whose props/CNN.py only runs the bounded stand-in.
vlib.core.main calls attach(rep) after mod.run() when the module produced no obligations itself."""
from pyvc.check import run_proofs, attach_bounded_witness

RL = ["%s.replace_leaves" % c for c in ("ProjectNode", "SelectRowsNode", "SelectColumnsNode", "DropColumnsNode", "OrderRowsNode", "RenameColumnsNode",
                                         "ConvertRecordsNode", "ConcatRowsNode", "MapColumnsNode", "ExtendNode")]

TABLE = {
    "C07": {
        "mods": ["contracts.c06_builders"], "keys": RL,
        "explanation": ("hybrid: PROVED (pyvc, unbounded) -- every replace_leaves rebuilds its node from the replaced sources and EVERY stored constructor argument, binding the "
                        "builder's real signature (10 node classes; NaturalJoinNode / TableDescription / SQLNode not yet under contract); BOUNDED -- the composition "
                        "routes, associativity and dom/cod are checked at run time on the real code over the enumerated scope"),
        "assumptions": ["builders abstracted at call sites as uninterpreted functions of all their arguments (their own bodies are under contract in C06)",
                        "source.replace_leaves(m) abstracted as the function replace_leaves(source, m) the per-class obligations define"],
    },
}


def attach(rep, tier, seed):
    cfg = TABLE.get(rep.property_id)
    if not cfg or rep.obligations:
        return
    run_proofs(rep, cfg["mods"], cfg["keys"], cfg.get("replays"))
    if cfg.get("explanation"):
        rep.explanation = cfg["explanation"]
    rep.assumptions += cfg.get("assumptions", [])
    attach_bounded_witness(rep)
