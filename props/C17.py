"""C17: record transforms are invertible and compose as documented (bounded contract check)."""
from vlib.core import Report, run_bounded
from cbc import c17

PID = "C17"


def run(tier: str, seed: int) -> Report:
    rep = Report(property_id=PID, level="other")
    rep.exhaustive = False
    rep.rule = (
        "cases = (strict record specification, conforming table): ALL %d specifications with 1-2 control-key columns (key patterns needing one or both "
        "columns) x 1-3 value columns x 2-3 control rows x 0-2 record-key columns (distinct content keys); for each, row-record tables with 0, 1 or 2 records "
        "(every record-id pattern), float and string values incl. nulls: all value assignments over a 3-value domain when the table has <= 4 value cells "
        "(%s), fixed assignment patterns (distinct values with a null, no nulls%s) otherwise; the block table is obtained with an independent "
        "reference transform (complete records by construction). Per case, on a Pandas frame and on a Polars frame: blocks->rows->blocks and "
        "rows->blocks->rows with inverse(); a general block-to-block map into two other strict layouts of the same content keys (long / transposed) and back "
        "with inverse(); compose() and >> of (blocks->rows, rows->layout), >> of (blocks->layout, layout->rows) and of (rows->blocks, blocks->layout) against "
        "sequential application; the blocks->rows round trips (plain and through the long layout) again for the block table with its ROWS PERMUTED (all "
        "permutations for <= 4 rows; otherwise reversed, rotated, control-key major, control-key major with alternating record direction, two shuffles); finally Pandas vs Polars for every transform. Tables are compared as column set + multiset of rows. NONTRIVIAL iff at "
        "least one contract check was evaluated."
        % (len(c17.gen_specs()), "every 4th-part sample of them at quick" if tier == "quick" else "every second one at thorough", "" if tier == "quick" else ", all equal, all null, a second permutation")
    )
    rep.bounded_label = "bounded: %d record specifications x conforming tables with <= 2 records, 2 back ends" % len(c17.gen_specs())
    rep.assumptions = [
        "the block tables are generated from the row-record tables with cbc.oracles_c.ref_rowrecs_to_blocks (used for generation only, never as a verdict)",
        "row order is not part of a record transform's result (multiset comparison)",
    ]
    rep.explanation = "exploration: run-time contract on RecordMap.transform / inverse / compose / >> over an enumerated scope"
    rep.functions_under_contract = c17.FUNCTIONS_UNDER_CONTRACT
    rep.trusted_base = ["pandas", "polars", "cbc.common.frames_equiv"]
    run_bounded(rep, "cbc.c17", tier, seed, timeout_s=(300 if tier == "quick" else 1500))
    return rep


def replay(payload) -> int:
    return 1 if c17.replay_case(payload["case"]) else 0
