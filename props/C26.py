"""C26: the builder rejects ill-formed steps when the pipeline is built (bounded contract check)."""
from vlib.core import Report, run_bounded
from cbc import c26

PID = "C26"


def run(tier: str, seed: int) -> Report:
    rep = Report(property_id=PID, level="other")
    rep.exhaustive = False
    sz = c26.scope_sizes(tier, seed)
    rep.rule = (
        "cases = (prefix, step): every pipeline cbc.common.gen_pipelines yields at depth 0, 1 and 2 (full per-operator grid, one- and two-table operators; includes "
        "order_rows without limit, select after select/drop and mergeable extends as last prefix steps) x the step family cbc.c26.make_steps(prefix.column_names): "
        "for each rule R1 unknown column (at every builder site), R2 changing a partition/order column, R3 use-and-produce in one extend, R4 non-aggregating / too "
        "complex project and window expressions, R5 join keys (incl. check_all_common_keys_in_equi_spec), R6 concat columns, at least one violating and one "
        "conforming step. The step is added with the REAL builder; 'raised when added' is compared with the rule predicates cbc.c26.violations_of evaluated on "
        "nothing but the prefix's column names. Every ACCEPTED pipeline is then evaluated with Pandas on a small null-free data set (prefixes of depth <= 1 "
        "always; depth 2: a seeded 1/2 in thorough, 1/24 in quick) and must not raise a rule error (cbc.c26.is_rule_error: unknown column, non-aggregating / invalid function, join-key or concat-column complaint) when its prefix evaluates to its declared columns; other evaluation failures are counted in the evidence only. NONTRIVIAL = accept/reject compared with the "
        "predicate (every builder call), plus one case per Pandas evaluation performed."
    )
    rep.bounded_label = "bounded: %d of the %d prefixes of depth 0..2 (thorough: all; quick: depth <= 1, all prefixes the builder simplifies, a seeded third of the rest) x up to %d rule-violating / rule-conforming steps each; accepted pipelines evaluated with Pandas on one 4-row data set" % (
        sz["prefixes"],
        sz["prefixes_enumerated"],
        sz["steps_on_4_columns"],
    )
    rep.assumptions = [
        "a step is rejected when added iff the builder call raises ValueError / KeyError / AssertionError / TypeError / NameError (NameError: unknown symbol from the expression parser)",
        "aggregating operators per context are the ones data_algebra.op_catalog.methods_table (read live) lists with op_class p/up (project), g (window), w (ordered window)",
        "a column updating itself in an extend ({'x': 'x + 1'}) is not part of the same-extend rule and is not generated, neither as violating nor as conforming step",
        "right-hand tables of join / concat steps are plain table descriptions; at evaluation their data is cut from the evaluated prefix so that dtypes agree",
        "convert_records steps are checked at build time only (their evaluation has data preconditions outside this property)",
        "the rule predicates are cbc.c26.violations_of",
    ]
    rep.explanation = "other: run-time contract on the real builder methods over an enumerated scope of prefixes and steps, compared with rule predicates written from the property statement"
    rep.functions_under_contract = c26.FUNCTIONS_UNDER_CONTRACT
    rep.trusted_base = ["cbc.common.gen_pipelines / build", "pandas", "cbc.c26.violations_of"]
    run_bounded(rep, "cbc.c26", tier, seed, timeout_s=(300 if tier == "quick" else 1200))
    return rep


def replay(payload) -> int:
    return 1 if c26.replay_case(payload["case"]) else 0
