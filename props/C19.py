"""C19: evaluation never modifies the caller's tables and is repeatable (bounded contract check)."""
from vlib.core import Report
from cbc import c19

PID = "C19"


def run(tier: str, seed: int) -> Report:
    sc = c19.scope(tier)
    rep = Report(property_id=PID, level="other")
    rep.exhaustive = False
    rep.rule = (
        "evaluations = (pipeline, data set, back end, entry point), each performed TWICE: chains of %s public operators from "
        "cbc.common.gen_pipelines (all operator pairs; reduced triples at thorough; two-table DAGs) x data sets (tables <= %d rows; "
        "pandas inputs carry a default, string-label, duplicate-label or shuffled-int index in rotation) x back ends Pandas, Polars eager, "
        "Polars lazy x entry points eval(), transform(), ex() and `df >> ops` (the last three where defined: single-table pipelines; "
        "ex() on eager frames). NONTRIVIAL = the call returned on a non-raising path and (I) every caller-owned input frame was "
        "compared with its deep pre-call snapshot (values, dtypes, column index, row index; Polars: values + schema) and (R) the "
        "second result was compared with the first (the repeat comparison is omitted, and the evaluation counted as ok-mutation-only, "
        "when the data make the pipeline's result undetermined: ties in a window ordering, a mid-chain limit cutting through ties, or convert_records input that violates its keying / complete-blocks requirement). "
        "Calls that raised still have their inputs checked and are counted as raised."
        % (sc["depths"], sc["max_rows"])
    )
    rep.bounded_label = "bounded: chains of depth %s, data sets per pipeline by depth %s, tables <= %d rows, 3 frame kinds x up to 4 entry points x 2 repetitions" % (
        sc["depths"],
        sc["per_spec"],
        sc["max_rows"],
    )
    rep.assumptions = [
        "pipelines of the enumerator use no random numbers (_uniform is not in the grid)",
        "repeatability is compared as multisets of rows (plus the order-key sequence after a final order_rows); row order is otherwise unspecified",
        "pandas.DataFrame.copy(deep=True) / DataFrame.equals and polars DataFrame.clone / equals are trusted for the snapshots",
    ]
    rep.explanation = (
        "Bounded run-time contract check (no proof): the real entry points are wrapped, inputs are snapshotted before each call and "
        "compared afterwards, each call is repeated."
    )
    rep.functions_under_contract = c19.FUNCTIONS_UNDER_CONTRACT
    rep.trusted_base = ["pandas", "polars"]
    c19.bounded(rep, tier, seed)
    return rep


def replay(payload) -> int:
    return 1 if c19.replay_case(payload["case"]) else 0
