"""C16: natural_join matches SQL join semantics on every backend (hybrid; the bounded part lives in cbc.c16)."""
from vlib.core import Report, run_bounded
from cbc import c16

PID = "C16"


def run(tier: str, seed: int) -> Report:
    sc = c16.scope(tier)
    n1 = len(c16.tables("same", sc["max_rows"]))
    n2 = len(c16.tables("two", sc["max_rows"]))
    rep = Report(property_id=PID, level="other")
    rep.exhaustive = False
    rep.rule = (
        "cases = (join type, key specification, table pair, backend): join type in {inner,left,right,full} x key spec in "
        "{same name on=['k'], different names on=[('k','k2')], two keys on=['k','j']} plus cross with on=[]; tables = ALL multisets of "
        "<= %d rows over keys {None,1,2} x shared non-key column v {None,10,20}, plus one private column per side (p=100+i, q=200+i) "
        "that numbers the rows (%d tables per side for one key, %d for two keys). One-key and cross specs: every pair of tables with "
        "rows(a)+rows(b) <= %d, and every %s pair of the remaining (largest) pairs; two-key spec: a deterministic seed-rotated stride of "
        "about %d pairs per join type through the full pair space. Backends: Pandas, Polars, SQLiteModel (right/full emulated) and the "
        "PostgreSQLModel SQL text run on the sqlite3 library (native RIGHT/FULL JOIN). A case is NONTRIVIAL iff the backend returned a "
        "table and it was compared with both oracles (status ok or fail); raising and unparseable-text cases are counted but not nontrivial."
        % (sc["max_rows"], n1, n2, sc["full_sum"], "1st" if sc["big_shard"] == 1 else "%dth" % sc["big_shard"], sc["two_pairs"])
    )
    rep.bounded_label = "bounded: 5 join types x 4 key specs x table pairs, tables <= %d rows (%d / %d tables per side), 4 backends" % (sc["max_rows"], n1, n2)
    rep.assumptions = [
        "the 'corresponding standard SQL join' of a natural_join is SELECT COALESCE(a.c, b.c) for every column c of both tables (keys included), "
        "other columns unchanged, FROM a <type> JOIN b ON a.k = b.k' (CROSS JOIN without ON); result = columns + multiset of rows, row order free",
        "two oracles that must agree on every case: a reference join over row lists (cbc.oracles_b.ref_join) and that hand-written SQL run on a plain sqlite3 "
        "connection (sqlite %s has native RIGHT and FULL JOIN); a disagreement is a checker error" % __import__("sqlite3").sqlite_version,
        "PostgreSQL is not executable here: the PostgreSQLModel text is executed by sqlite3 as a surrogate; a text sqlite3 cannot parse is skipped, never passed",
        "the SQLite SQL text is generated once per pipeline by the real to_sql (it does not depend on the data) and executed per table pair through the real DBHandle.read_query",
        "defect switches of ref_join (null keys match, cross join as outer merge, full-join emulation, uncoalesced key) are used only to NAME known defects of failing cases",
    ]
    rep.explanation = (
        "Bounded contract check: the real _natural_join_step of the live Pandas and Polars models and the real DBHandle.read_query of a SQLite handle are wrapped with a "
        "postcondition 'result == SQL join of the two inputs' and run over an enumerated small scope; nothing is proved for inputs outside the scope."
    )
    rep.functions_under_contract = c16.FUNCTIONS_UNDER_CONTRACT
    rep.trusted_base = ["sqlite3", "pandas", "polars", "cbc.common.frames_equiv", "cbc.oracles_b.ref_join"]
    run_bounded(rep, "cbc.c16", tier, seed, timeout_s=240 if tier == "quick" else 1200)
    return rep


def replay(payload) -> int:
    return 1 if c16.replay_case(payload["case"]) else 0
