"""C25: the evaluation result cache is transparent (bounded contract check)."""
from vlib.core import Report, run_bounded
from cbc import c25

PID = "C25"


def run(tier: str, seed: int) -> Report:
    rep = Report(property_id=PID, level="other")
    rep.exhaustive = False
    sz = c25.scope_sizes(tier)
    rep.rule = (
        "cases = pair: every frame with <= 2 rows x <= 2 columns over the per-type domains int {0,1,2}, float {0.0,0.5,NaN}, str {'a','b',null}, bool, "
        "object {1,'1','a'} (quick: second column of 2x2 frames int only), paired with every frame differing in exactly one value / one column name / "
        "shape / column order / row order / the dtype of one column with equal values, and with a rebuilt equal frame: a.equals(b) => keys (hash_data_frame and "
        "make_cache_key) equal; tables differing in a value / column name / shape / row order => keys differ; dtype-only differences with ==-equal values: nothing "
        "demanded, counted in dtype_only_pairs_sharing_a_key; datamap: key independent of dict insertion order and of the model instance, different for another dialect / SQL text / table name / "
        "table value / extra or missing table / swapped frames; history: all store/get histories up to the length bound over 2 keys x 2 results x (mutate the "
        "returned copy | mutate the caller's result and data-map frame after store) against a dict model, the whole view (both keys) compared after every step, "
        "for 4 choices of the single component in which the two keys differ (SQL text, dialect, one data value, row order). NONTRIVIAL = keys / views compared "
        "(histories consisting only of lookups of the empty cache are counted as trivial)."
    )
    rep.bounded_label = (
        "bounded: %d base frames (<= 2 rows x <= 2 columns, 5 value domains) x all one-difference neighbours; store/get histories of length <= %d%s over an alphabet of %d "
        "operations (2 keys x 2 results x mutation flags) x %d key pairs"
        % (sz["base_frames"], 3, " (length 4 for the key pairs differing in the SQL text / one data value)" if tier == "thorough" else "", sz["history_alphabet"], sz["key_variants"])
    )
    rep.assumptions = [
        "'equal data tables' (keys must be equal) is pandas DataFrame.equals; 'differ' (keys must differ) is the statement's list: a value, a column name, the shape or the row order (cbc.c25.same_values is False)",
        "tables holding pairwise ==-equal values under different column dtypes (int64 vs bool/int32/Int64, 0 vs 0.0, str vs object, empty columns) differ in none of the listed respects: no demand on their keys, shared keys are counted as information only",
        "dialect = str(db_model) (the model's class name); two model instances of one dialect are the same dialect",
        "the dict model of the histories is keyed by the key index: the two keys of a history differ in exactly one component by construction",
        "ResultCache.dirty and ResultCache.data_cache (debugging copies) are outside the property",
    ]
    rep.explanation = "other: run-time contract on the real hash / key / cache functions over enumerated frame pairs and store/get histories"
    rep.functions_under_contract = c25.FUNCTIONS_UNDER_CONTRACT
    rep.trusted_base = ["pandas (DataFrame.equals, frame construction)", "cbc.c25.run_history dict model"]
    run_bounded(rep, "cbc.c25", tier, seed, timeout_s=(240 if tier == "quick" else 900))
    return rep


def replay(payload) -> int:
    return 1 if c25.replay_case(payload["case"]) else 0
