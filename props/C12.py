"""C12: printed pipelines rebuild to equal pipelines with identical results (bounded contract check)."""
from vlib.core import Report, run_bounded
from cbc import c12

PID = "C12"


def run(tier: str, seed: int) -> Report:
    sc = c12.scope(tier)
    rep = Report(property_id=PID, level="other")
    rep.exhaustive = False
    rep.rule = (
        "cases = (pipeline, construction route): (a) expression trees from the typed enumerator cbc.oracles_c (FORMS: inline + - * / // %% ** %%/%%, "
        "comparisons, and/or/not (text) and & | ^ (Python API), unary minus, method calls, function-call forms, list and dict arguments; leaves x y k g, "
        "positive / negative / float / bool constants and strings with quotes, backslash and newline): ALL depth-1 trees over all leaf combinations, "
        "depth-2 trees = every (root form, argument position, child form) plus both-children-non-leaf over a reduced child set%s, each placed in "
        "extend and (boolean ones) select_rows, built BOTH from fully parenthesised text and through the Term API (the API route is skipped only when it "
        "yields a structurally identical pipeline); aggregate forms in project (3 groupings) and windowed extend (3 partitions, order_by, reverse); "
        "(b) every node kind with its options (joins: all join types x key forms incl. dict / mixed / self, concat_rows with id_column and quoted labels, "
        "order_rows reverse/limit incl. 0, select/drop/rename/map incl. deletions and swaps, convert_records in all four directions incl. quoted names, "
        "two control keys and non-strict, table qualifiers); (c) the shared operator corpus cbc.common.gen_pipelines depth 1 (full grid) and 2 (reduced grid). "
        "Each case: rebuild via to_python(pretty=False), to_python(pretty=True), repr() [eval_da_ops] and pickle; check rebuilt == ops (both directions and !=), "
        "rebuilt.to_python() == ops.to_python(), and equal Pandas results (ordered, column order) on %d data sets. NONTRIVIAL iff at least one result pair was "
        "returned and compared; both-raise and builder-refused cases are counted but not nontrivial."
        % (", depth-3 spines (root form, position, middle form, position, inner form) over 21 root forms" if tier == "thorough" else "", sc["n_tables"])
    )
    rep.bounded_label = "bounded: expression trees of depth <= %d (typed enumerator), %d formats, %d data sets per pipeline (tables <= 3 rows)" % (sc["depth"], len(c12.FORMATS), sc["n_tables"])
    rep.assumptions = [
        "`==` of pipelines is known to be coarser than structural identity (another property); therefore results and to_python text are compared as well",
        "a pipeline that raises on a data set must raise the same exception type after rebuilding; such data sets do not count as compared",
        "black as installed is the formatter behind pretty=True / repr()",
        "SQLNode is not covered (cannot be evaluated on Pandas)",
    ]
    rep.explanation = "run-time contract on the real printers and eval_da_ops/pickle over an enumerated scope; no proof part in this module"
    rep.functions_under_contract = c12.FUNCTIONS_UNDER_CONTRACT
    rep.trusted_base = ["pandas", "black", "pickle", "cbc.common.frames_equiv"]
    run_bounded(rep, "cbc.c12", tier, seed, timeout_s=(240 if tier == "quick" else 1200))
    return rep


def replay(payload) -> int:
    return 1 if c12.replay_case(payload["case"]) else 0
