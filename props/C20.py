"""C20 Data spaces behave like a keyed store of tables."""
from vlib.core import Report, run_bounded
from pyvc.check import run_proofs, attach_bounded_witness, proof_findings

MODS = ["contracts.c20_spaces"]


def run(tier, seed):
    from contracts.c20_spaces import KEYS
    rep = Report(property_id="C20", level="proof")
    rep.rule = ("proof part: postconditions over the WHOLE view (every other key unchanged, also on raising paths) of the 13 public methods of "
                "DataModelSpace and DBSpace, one VC per path; bounded ride-along: all histories up to the stated length against a dict model on both "
                "real spaces (DBSpace on in-memory SQLite); non-trivial = history of length >= 2")
    rep.bounded_label = "bounded ride-along (not counted as proved): histories <= %d over keys {a, da_temp_1, None} x flags" % (3 if tier == "quick" else 4)
    rep.assumptions += [
        "database handle: ASSUMED keyed-store contracts for insert_table / drop_table / read_table / create_table / describe_table (ghost field `tables`)",
        "ops.eval(data_map) and CREATE TABLE AS are functions of the pipeline and the store contents at the call, or raise",
        "f-strings are injective in their pieces; str(int) injective (automatic keys)",
        "close() is outside the property and not under contract; termination of the key-skipping loop not proved",
    ]
    run_proofs(rep, MODS, KEYS)
    from cbc import c20
    proof_findings(rep, {"DBSpace.execute.stores-result-computed-on-current-contents[overwriting-an-entry]": c20.witness_dbspace_overwrite,
                         "DBSpace.execute.view-unchanged-on-failure[overwriting-an-entry]": c20.witness_dbspace_overwrite})
    run_bounded(rep, "cbc.c20", tier, seed, timeout_s=300 if tier == "quick" else 1200)
    attach_bounded_witness(rep)
    return rep


def replay(payload):
    from cbc import c20
    case = payload.get("case")
    if case is None:
        print("no concrete history in this replay file; obligation:", payload.get("obligation"))
        return 1
    return 1 if c20.replay_case(case) else 0
