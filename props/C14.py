"""C14: generated SQL carries every literal and identifier verbatim (bounded contract check)."""
from vlib.core import Report, run_bounded
from cbc import c14

PID = "C14"


def run(tier: str, seed: int) -> Report:
    sc = c14.scope(tier)
    n = len(c14.probes(sc["max_len"]))
    rep = Report(property_id=PID, level="other")
    rep.exhaustive = True
    rep.rule = (
        "cases = (use site, probe string, dialect): ALL %d strings of length <= %d over the alphabet %r x %d use sites (%s) x 5 dialect models, "
        "each generated with annotate=True and annotate=False; in addition %d SQL keywords / niladic functions (null, true, current_date, group, order, select, ... "
        "lower and UPPER case) as names at every identifier site (column as rename source / target, map source, select, drop survivor, order key, expression operand, "
        "aggregate argument, partition key, join key, group key, new extend column, table name, concat id column, record control columns). Identifier sites are not applicable (counted, not nontrivial) for the empty string and for "
        "strings containing the dialect's identifier quote character. SQLiteModel: the query is executed on sqlite3 (tables created with the harness' own "
        "quoting) and the table read back must equal the expected one exactly (names and values). PostgreSQLModel: its text is executed on sqlite3 whenever "
        "the query for the neutral string 'a' runs there and returns the right table, else tokenised. MySQLModel / SparkSQLModel / BigQueryModel: tokenised "
        "with cbc.oracles_c.lex_sql; the token kinds must equal those of the neutral query and the differing tokens must be string / identifier tokens "
        "decoding to the probe. NONTRIVIAL iff SQL for the neutral string exists and the probe's SQL was executed or tokenised and compared."
        % (n, sc["max_len"], "".join(c14.ALPHABET), len(c14.SITES), ", ".join(c14.SITES.keys()), len(c14.keyword_probes()))
    )
    rep.bounded_label = "bounded: all %d strings of length <= %d over the 12-character alphabet x %d use sites x 5 dialects x annotate on/off" % (n, sc["max_len"], len(c14.SITES))
    rep.assumptions = [
        "lexical rules implemented in cbc.oracles_c.lex_sql: quote doubling inside string literals and quoted identifiers in every dialect; backslash escapes additionally inside MySQL, Spark SQL and BigQuery string literals and (BigQuery lexical structure: quoted identifiers 'have the same escape sequences as string literals') inside BigQuery `identifiers`; MySQL/Spark/BigQuery accept both ' and \" as string quotes; comments --, /* */ and (MySQL, BigQuery) #",
        "sqlite3 is the executor for SQLiteModel and the surrogate executor for PostgreSQLModel text",
        "a name or value the pipeline builder itself refuses (no SQL generated) is outside the property",
    ]
    rep.explanation = "run-time contract on the real to_sql of five dialect models over an exhaustively enumerated set of strings; no proof part in this module"
    rep.functions_under_contract = c14.FUNCTIONS_UNDER_CONTRACT
    rep.trusted_base = ["sqlite3", "cbc.oracles_c.lex_sql"]
    run_bounded(rep, "cbc.c14", tier, seed, timeout_s=(240 if tier == "quick" else 1200))
    return rep


def replay(payload) -> int:
    return 1 if c14.replay_case(payload["case"]) else 0
