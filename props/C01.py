"""C01: SQLite SQL computes the same table as the Pandas executor (bounded contract check, class B)."""
from vlib.core import Report
from cbc import c01

PID = "C01"


def run(tier: str, seed: int) -> Report:
    sc = c01.scope(tier)
    rep = Report(property_id=PID, level="other")
    rep.exhaustive = False
    rep.rule = (
        "cases = (pipeline, data set): every chain of %s public operators after table d from the typed enumerator "
        "cbc.common.gen_pipelines (all operator pairs over the full parameter grid; triples over the reduced grid at thorough; "
        "one- and two-table DAGs; methods restricted to rows op_catalog.methods_table marks 'y' for Pandas and SQLiteModel, read live) "
        "x %d data sets per pipeline drawn deterministically from a pool of tables with <= %d rows over small per-type domains "
        "(always including empty tables, all-null rows, duplicates, ties, null keys). A case is NONTRIVIAL iff the contract was "
        "evaluated on a real SQLite result and compared with the Pandas result (status ok or fail); catalog-excluded, "
        "convention-excluded, both-raise and precondition-skipped cases (window order with ties, limit cutting through ties in "
        "mid-chain, convert_records keying requirement) are counted but not nontrivial." % (sc["depths"], sc["per_spec"], sc["max_rows"])
    )
    rep.bounded_label = "bounded: chains of depth %s, %d data sets per pipeline (depth 3: %d), tables <= %d rows, pool of %d data sets" % (
        sc["depths"],
        sc["per_spec"],
        sc["depth3_per_spec"],
        sc["max_rows"],
        sc["cap"] + 2,
    )
    rep.assumptions = [
        "sqlite3 and pandas as installed are the executors; fresh in-memory SQLite connection per case, no result cache",
        "accepted differences are exactly: cells derived from integer `/` and from `%`; 0-vs-NULL for sum/count/size over a group without non-null values -- accepted in the sum/count-family output columns of a case in which such a group occurs on either back end (and such cases are excluded when those cells feed a row-affecting position)",
        "a result that SQL/pandas semantics leave undetermined (ties in a window order, limit cutting through ties) is not compared",
        "cbc.sem (reference model with divergence switches) is used only to name known divergences of failing cases, never to pass a case",
    ]
    rep.functions_under_contract = c01.FUNCTIONS_UNDER_CONTRACT
    rep.trusted_base = ["sqlite3", "pandas", "cbc.common.frames_equiv"]
    c01.bounded(rep, tier, seed)
    return rep


def replay(payload) -> int:
    return 1 if c01.replay_case(payload["case"]) else 0
