"""C06 Builder simplifications never change what a pipeline means."""
from vlib.core import Report, run_bounded
from pyvc.check import run_proofs, attach_bounded_witness

MODS = ["contracts.c06_merge", "contracts.c06_builders"]
REPLAYS = {"try_to_merge_ops": "contracts.c06_native:replay_merge",
           "ViewRepresentation.extend_parsed_:merge-decision[partition_by=1]": "contracts.c06_native:replay_merge_decision",
           "ViewRepresentation.extend_parsed_:merge-decision[partition_by=list]": "contracts.c06_native:replay_merge_decision"}


def run(tier, seed):
    from contracts.c06_builders import KEYS as BKEYS
    keys = ["try_to_merge_ops"] + [k for k in BKEYS if not k.endswith(".replace_leaves")]
    rep = Report(property_id="C06", level="proof")
    rep.rule = ("obligations = named ensures clauses / callee preconditions of the targets, one VC per control path: (1) try_to_merge_ops: the merged extend equals the two "
                "extends applied in turn, for all assignment maps and all tables; (3) every builder forwards ALL its arguments through an eliminated order_rows and otherwise "
                "builds its node from all of them; (4) select_columns only accepts columns of the step it is applied to, also when it collapses onto an earlier select/drop; "
                "(5) only an order_rows without limit is ever eliminated; (2) extend_parsed_ merges a new extend into an existing one only when partition, order_by (as a list), reverse "
                "and windowed-ness coincide, and otherwise builds the node on this step from every argument")
    rep.assumptions += [
        "ghost semantics of extend: simultaneous assignment; ev(e,T) depends only on cols(e) and the window columns (frame axiom); expr_rep.get_columns_used = union of cols",
        "builders and constructors are abstracted at call sites as uninterpreted functions of all their arguments",
        "extend_parsed_'s merge decision is proved as a REGION contract: the verified text is the suffix of the real extend_parsed_ body starting at `if isinstance(self, ExtendNode):`, "
        "re-extracted from the source on every run; the statements before it (argument normalisation, disjointness checks, forwarding through an eliminated order_rows) are dropped and what "
        "they establish is assumed as the region's precondition (partition_by is 1 or a list, order_by / reverse are lists, self is not an eliminable order_rows)",
        "the order-insensitivity of later operators (licence for dropping order_rows) is checked only boundedly (C07 / C18 runs)",
    ]
    run_proofs(rep, MODS, keys, REPLAYS)
    from contracts.c06_builders import REGION_KEYS
    run_proofs(rep, ["contracts.c06_extend"], REGION_KEYS, {k: "contracts.c06_native:replay_merge_decision" for k in REGION_KEYS})
    return rep


def replay(payload):
    import importlib
    tgt = payload.get("target")
    if tgt not in REPLAYS or not payload.get("case"):
        print("no concrete input in this replay file; obligation:", payload.get("obligation"))
        print(payload.get("solver_output"))
        return 1
    m, f = REPLAYS[tgt].split(":")
    out = getattr(importlib.import_module(m), f)(payload["case"])
    print(out)
    return 1 if out.get("fails") else 0
