"""C06 Builder simplifications never change what a pipeline means."""
from vlib.core import Report
from pyvc.check import run_proofs

MODS = ["contracts.c06_merge"]
KEYS = ["try_to_merge_ops"]


REPLAYS = {"try_to_merge_ops": "contracts.c06_native:replay_merge"}


def run(tier, seed):
    rep = Report(property_id="C06", level="proof")
    rep.rule = "obligations = named ensures clauses / callee preconditions / loop invariants of the targets, one VC per control path"
    run_proofs(rep, MODS, KEYS, REPLAYS)
    return rep


def replay(payload):
    import importlib
    m, f = REPLAYS[payload.get("target")].split(":")
    out = getattr(importlib.import_module(m), f)(payload["case"])
    print(out)
    return 1 if out.get("fails") else 0
