"""C03: the Polars executor agrees with Pandas whenever it returns a result (bounded contract check, class B)."""
from vlib.core import Report
from cbc import c03

PID = "C03"


def run(tier: str, seed: int) -> Report:
    sc = c03.scope(tier)
    rep = Report(property_id=PID, level="other")
    rep.exhaustive = False
    rep.rule = (
        "evaluations = (pipeline, data set, mode): every chain of %s public operators after table d from the typed enumerator "
        "cbc.common.gen_pipelines (all operator pairs over the full grid; triples over the reduced grid at thorough; one- and two-table "
        "DAGs; methods the live op_catalog marks 'y' for Pandas -- the catalog has no Polars column) x %d data sets per pipeline "
        "(tables <= %d rows, incl. empty tables, all-null rows, duplicates, ties, null keys) x 4 modes (eager/lazy input frames x "
        "use_lazy_eval True/False). An evaluation is NONTRIVIAL iff PolarsModel.eval RETURNED a table and it was compared with the "
        "Pandas result; evaluations where Polars raised (allowed by the property) or Pandas raised, and precondition-skipped cases, "
        "are counted separately (coverage.returned_and_compared / coverage.raised / coverage.polars_raise_kinds)."
        % (sc["depths"], sc["per_spec"], sc["max_rows"])
    )
    rep.bounded_label = "bounded: chains of depth %s, %d data sets per pipeline (depth 3: %d), tables <= %d rows, 4 evaluation modes" % (
        sc["depths"],
        sc["per_spec"],
        sc["depth3_per_spec"],
        sc["max_rows"],
    )
    rep.assumptions = [
        "polars 1.44 and pandas 3.0.5 as installed; the Pandas executor's result is the reference the property names",
        "no accepted differences: values compared with float tolerance 1e-8, null == NaN, numeric comparison across int/float/bool",
        "a result that the semantics leave undetermined (ties in a window order, limit cutting through ties) is not compared",
        "cbc.sem (reference model with divergence switches) is used only to name known divergences of failing cases, never to pass a case",
    ]
    rep.functions_under_contract = c03.FUNCTIONS_UNDER_CONTRACT
    rep.trusted_base = ["polars", "pandas", "cbc.common.frames_equiv"]
    c03.bounded(rep, tier, seed)
    return rep


def replay(payload) -> int:
    return 1 if c03.replay_case(payload["case"]) else 0
