"""C24 OrderedSet is a set that remembers first insertion order."""
from vlib.core import Report
from pyvc.check import run_proofs, attach_bounded_witness

MODS = ["contracts.c24_orderedset"]
KEYS = ["OrderedSet.__init__", "OrderedSet.add", "OrderedSet.discard", "OrderedSet.update[0 iterables]", "OrderedSet.update[1 iterables]",
        "OrderedSet.update[2 iterables]", "OrderedSet.copy", "OrderedSet.__copy__", "OrderedSet.__len__", "OrderedSet.__contains__",
        "OrderedSet.__iter__", "OrderedSet.__le__", "OrderedSet.__ge__"]


def run(tier, seed):
    rep = Report(property_id="C24", level="proof")
    rep.rule = ("proof part: named ensures clauses / callee preconditions / loop invariants of 16 targets of OrderedSet.py, one VC per path; "
                "bounded ride-along: all operation sequences up to the stated length over 3 elements, every public and inherited method, "
                "against a (set, first-insertion list) model; non-trivial = sequence of length >= 1 / helper call with two non-empty arguments")
    rep.bounded_label = "bounded ride-along (not counted as proved): op sequences <= %d over {a,b,c}; helper arguments <= %d over 4 elements" % ((3, 3) if tier == "quick" else (4, 4))
    rep.assumptions += [
        "python dict/OrderedDict iterate in insertion order; re-assigning a present key keeps its place; pop removes (pyvc §3.6-2)",
        "list comprehension with a filter keeps relative order (pyvc §3.6-3)",
        "collections.abc.MutableSet mixins (remove, pop, clear, |=, &=, -=, ^=, |, &, -, ^, ==, isdisjoint) and __lt__/__gt__/union: bounded run only",
        "OrderedSet.update proved for 0, 1 and 2 iterables (outer loop unrolled), any contents",
        "helpers proved for list/tuple and OrderedSet arguments, except ordered_union with an OrderedSet as second argument (bounded run only)",
        "termination not proved",
    ]
    from contracts.c24_orderedset import HELPER_KEYS
    run_proofs(rep, MODS, KEYS + HELPER_KEYS)
    from vlib.core import run_bounded
    run_bounded(rep, "cbc.c24", tier, seed, timeout_s=180 if tier == "quick" else 900)
    attach_bounded_witness(rep)
    return rep


def replay(payload):
    from cbc import c24
    case = payload.get("case") or payload.get("bounded_witness", {}).get("case")
    if case is None:
        print("no concrete input in this replay file; obligation:", payload.get("obligation"))
        print(payload.get("solver_output"))
        return 1
    return 1 if c24.replay_case(case) else 0
