"""C09: aggregation returns one row per group, and one row without grouping (hybrid; bounded part in cbc.c09)."""
from vlib.core import Report, run_bounded
from cbc import c09

PID = "C09"


def run(tier: str, seed: int) -> Report:
    sc = c09.scope(tier)
    pls = c09.pipelines()
    nt = {",".join(k): len(c09.tables(k, sc["max_rows"], sc["k_domain"])) for k in c09.KEYSETS}
    rep = Report(property_id=PID, level="other")
    rep.exhaustive = False
    rep.rule = (
        "cases = (pipeline, table, backend): %d pipelines over table d(g,k,x,y) = {project with group_by in [], [g], [g,k] computing "
        "sum/mean/min/max/count of x} x {no prefix, select_rows('x > 1') prefix (derives empty inputs)} x {no later step, extend that overwrites every "
        "aggregate output, select_columns that keeps no aggregate output, drop_columns of every aggregate output} plus {windowed extend with partition_by "
        "none, [g], [g,k] computing the same five aggregates} x {no prefix, select_rows prefix}; tables = ALL multisets of <= %d rows over g in {None,a,b} "
        "(if a key), k in %r (if a key), x in {None,1,2}: %s tables for key sets %s (always including the empty table and null keys); backends Pandas, Polars, SQLite. "
        "A case is NONTRIVIAL iff the backend returned a table that was compared with the expectation derived from the materialised input (status ok or fail); "
        "raising cases are counted but not nontrivial."
        % (len(pls), sc["max_rows"], sc["k_domain"], list(nt.values()), list(nt.keys()))
    )
    rep.bounded_label = "bounded: %d pipelines x all tables <= %d rows (%s tables per key set) x 3 backends" % (len(pls), sc["max_rows"], "/".join(str(v) for v in nt.values()))
    rep.assumptions = [
        "the materialised input of a project / windowed extend step is what the same back end returns for the pipeline prefix (really evaluated)",
        "one row per group: the key tuples of the step result are exactly the distinct key tuples of its input (null a key value of its own); without group_by exactly one row; "
        "the result of the whole pipeline is checked too (steps after the project are row-preserving)",
        "windowed extend: result = input rows, each extended with sum/mean/min/max/count over the rows of its partition computed by cbc.oracles_b.ref_group_agg; "
        "missing values are skipped; the sum over a partition without non-null values may be 0 or null (documented destination convention, as in C01)",
        "SQL text generated once per pipeline by the real to_sql (data independent), executed per table through the real DBHandle.read_query of one SQLite handle per worker",
        "aggregate VALUES of project steps are not part of this property (see C05)",
    ]
    rep.explanation = (
        "Bounded contract check: the real _project_step/_extend_step entries of the live Pandas and Polars dispatch tables and the real DBHandle.read_query are wrapped "
        "with the row/group postcondition and run over an enumerated small scope; nothing is proved for inputs outside the scope."
    )
    rep.functions_under_contract = c09.FUNCTIONS_UNDER_CONTRACT
    rep.trusted_base = ["sqlite3", "pandas", "polars", "cbc.common.frames_equiv", "cbc.oracles_b.ref_windowed_group"]
    run_bounded(rep, "cbc.c09", tier, seed, timeout_s=240 if tier == "quick" else 1200)
    return rep


def replay(payload) -> int:
    return 1 if c09.replay_case(payload["case"]) else 0
