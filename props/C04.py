"""C04: SQL formatting and optimization options never change query results (bounded contract check)."""
from vlib.core import Report, run_bounded
from cbc import c04

PID = "C04"


def run(tier: str, seed: int) -> Report:
    sc = c04.scope(tier)
    rep = Report(property_id=PID, level="other")
    rep.exhaustive = False
    rep.rule = (
        "cases = pipelines: the shared operator corpus cbc.common.gen_pipelines (one- and two-table chains; depth 1 full grid, depth 2 %s%s) plus "
        "%d DAGs built with OBJECT SHARING: one prefix P (table / extend / overwriting extend / select_rows / project / windowed extend) used twice, "
        "L = ext(P) and R = ext'(P) with ext in {nothing, a mergeable extend, the same column with another formula, another column, a two-step "
        "non-mergeable extend chain, select_rows}, combined by natural_join (on g, k; %s) or concat_rows (id_column None / 'src'), optionally followed by "
        "one more mergeable extend; plus %d chains in which a windowed extend's partition_by / order_by column is created or overwritten by the immediately "
        "preceding extend (new column / overwriting k, g, y; sum, max+count, cumsum with order_by and reverse; optionally after select_rows or followed by another extend). For each pipeline SQLiteModel SQL is generated for ALL 2^4 combinations of use_with, use_cte_elim, annotate, "
        "initial_commas x sql_indent in {' ', TAB, 4 spaces} x model.allow_extend_merges in {True, False} (96 variants) and executed on sqlite3 on %d "
        "non-empty data set(s) (tables <= %d rows); every variant's table is compared with the table of the default options (multiset of rows, plus the "
        "order-key sequence after a final order_rows). to_sql must raise for all variants or for none. PostgreSQLModel text with use_cte_elim True / False is "
        "executed on sqlite3 as a surrogate and compared; texts sqlite3 cannot run are counted and skipped. Data sets on which the result is not determined "
        "(ties in a window order / at a limit cut, convert_records keying) are skipped and counted. NONTRIVIAL iff at least one variant result was returned "
        "and compared with the default's."
        % (
            "reduced grid" if tier == "quick" else "reduced grid + one half of the full grid (rotated by the seed)",
            "" if tier == "quick" else ", depth 3 reduced grid: 1/16 shard rotated by the seed",
            len(c04.dag_cases(tier)),
            "inner, left" if tier == "quick" else "inner, left, full",
            len(c04.struct_cases()),
            sc["per_case"],
            sc["max_rows"],
        )
    )
    rep.bounded_label = "bounded: corpus chains of depth <= %d + %d shared-sub-pipeline DAGs, 96 SQLite option variants + 2 PostgreSQL texts each, %d data set(s)" % (
        2 if tier == "quick" else 3,
        len(c04.dag_cases(tier)),
        sc["per_case"],
    )
    rep.assumptions = [
        "sqlite3 executes the SQLiteModel SQL and is the surrogate executor for PostgreSQLModel text",
        "speed only: str(node) (= to_python(pretty=True), used by to_sql for cache keys; pure) is memoised per node object while the variants of one pipeline are generated; checked to give byte-identical SQL",
        "allow_extend_merges is set as an attribute of a fresh model instance",
    ]
    rep.explanation = "run-time contract on the real to_sql over an enumerated scope of pipelines x option sets; no proof part in this module"
    rep.functions_under_contract = c04.FUNCTIONS_UNDER_CONTRACT
    rep.trusted_base = ["sqlite3", "cbc.common.frames_equiv"]
    run_bounded(rep, "cbc.c04", tier, seed, timeout_s=(300 if tier == "quick" else 1500))
    return rep


def replay(payload) -> int:
    return 1 if c04.replay_case(payload["case"]) else 0
