"""C21: solution helpers compute what their documentation promises (bounded contract check)."""
from vlib.core import Report, run_bounded
from cbc import c21

PID = "C21"


def run(tier: str, seed: int) -> Report:
    rep = Report(property_id=PID, level="exploration")
    rep.exhaustive = False
    rep.rule = (
        "cases = (helper, parameters, input table): rank_to_average -- ALL tables with <= 4 rows over 2 partitions x 3 order values (so ties and single-row "
        "groups occur; at quick 1/4 of the 4-row tables, rotated by the seed), with and without partition_by, plus tables with two order columns; "
        "last_observed_carried_forward -- tables with <= 4 rows, 2 partitions, values None / NaN (missing) / 1.0 / 2.0 / +inf / -inf (values: never filled), distinct order keys in ascending, descending and a "
        "shuffled physical order (4-row tables sharded), with and without partition_by; replicate_rows_query -- max_count in {1, 2, 3, 4, 5, 8}, every tuple "
        "of counts 1..max_count for <= 3 rows (incl. the empty table), joined with the helper's own count table; def_multi_column_map -- tables with <= 3 rows, "
        "two mapped columns over {'a', 'b', unmapped 'z', null}, three mapping tables (full, partial, one column only), coalesce_value None / 0.0 / -1.0, "
        "with and without cols_to_map_back. Every pipeline is evaluated on Pandas and on SQLite; each result is compared with an independent plain-Python "
        "reference computation of the documented behaviour (column set + multiset of rows). NONTRIVIAL iff at least one back end returned and was compared."
    )
    rep.bounded_label = "bounded: 4 solution helpers, all small input tables (<= 4 rows, <= 2 partitions, ties, missing values, counts 1..max_count, unmapped values), Pandas and SQLite"
    rep.assumptions = [
        "order keys and partition keys are non-null (the documentation does not say where nulls sort); order keys of last_observed_carried_forward are distinct",
        "replicate_rows_query is used with counts 1..max_count as its scope states",
        "every helper is called with its DEFAULT optional arguments (no partition_by / selection_predicate / coalesce_value / cols_to_map_back unless the case is about them)",
        "None and NaN are both 'missing' (a Pandas float column and SQLite cannot tell them apart); +inf / -inf are ordinary values",
        "the references are the functions ref_* in cbc/c21.py",
    ]
    rep.explanation = "exploration: run-time contract on the pipelines built by data_algebra.solutions over an enumerated scope of inputs"
    rep.functions_under_contract = c21.FUNCTIONS_UNDER_CONTRACT
    rep.trusted_base = ["pandas", "sqlite3", "cbc.common.frames_equiv", "cbc.c21.ref_*"]
    run_bounded(rep, "cbc.c21", tier, seed, timeout_s=(300 if tier == "quick" else 1500))
    return rep


def replay(payload) -> int:
    return 1 if c21.replay_case(payload["case"]) else 0
