"""C11 Pipelines that compare equal behave identically."""
from vlib.core import Report, run_bounded
from pyvc.check import run_proofs, attach_bounded_witness, proof_findings

MODS = ["contracts.c11_equality"]
TERM_MODS = ["contracts.c11_terms"]


def run(tier, seed):
    from contracts.c11_equality import KEYS
    rep = Report(property_id="C11", level="proof")
    rep.rule = ("proof part: IFF characterisation of the is_equal methods of the five expression classes (ListTerm incl. its element loop, Expression incl. params and argument loops) and of the 13 _equiv_nodes methods, of ViewRepresentation.__eq__ (loop over sources, recursion through its own "
                "contract), RecordMap.__eq__ and RecordSpecification.__eq__ against the reviewed semantic field sets; bounded ride-along: all ordered pairs of a "
                "family of pipelines varying one argument at a time: a == b => same SQL in five dialects and same Pandas result, reflexive, symmetric; "
                "non-trivial = pair of distinct pipelines")
    rep.bounded_label = "bounded ride-along (not counted as proved): ~150 hand-enumerated pipelines, all ordered pairs"
    rep.assumptions += [
        "Term.is_equal decides an equivalence E on expressions (kernel of an uninterpreted expr_code); whether E-equal expressions behave identically (Value(1) vs Value(True), NaN) is only in the bounded runs",
        "the semantic field sets F(C) (fields the executors / SQL generator read) are reviewed lists, not harvested mechanically",
        "RecordSpecification.__repr__ prints every field (so printed-form equality is content equality)",
        "reflexivity and symmetry follow from the IFF characterisations by a two-line paper argument",
    ]
    run_proofs(rep, MODS, KEYS)
    from contracts.c11_terms import KEYS as TKEYS
    run_proofs(rep, TERM_MODS, TKEYS)
    from cbc import c11
    proof_findings(rep, {"TableDescription.__eq__.equal-tables-have-equal-columns-and-qualifiers": c11.witness_table_eq})
    run_bounded(rep, "cbc.c11", tier, seed, timeout_s=300)
    attach_bounded_witness(rep)
    return rep


def replay(payload):
    from cbc import c11
    case = payload.get("case")
    if case is None or "a" not in case:
        print("no concrete pair in this replay file; obligation:", payload.get("obligation"), payload.get("observed"))
        return 1
    return 1 if c11.replay_case(case) else 0
