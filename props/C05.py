"""C05: every catalogued method behaves as documented on every backend that claims it (hybrid; bounded part in cbc.c05)."""
from vlib.core import Report, run_bounded
from cbc import c05
from cbc import oracles_b as O

PID = "C05"


def run(tier: str, seed: int) -> Report:
    sc = c05.scope(tier)
    n = len(c05.catalog_rows())
    nv = sum(len(m.variants) for m in O.doc_meaning().values())
    rep = Report(property_id=PID, level="other")
    rep.exhaustive = False
    rep.rule = (
        "cases = (catalogued method, operand row or group, backend): each of the %d rows of op_catalog.methods_table (read live) as ONE single-method step -- scalar methods: extend over "
        "every combination of the operand grids num %r (is_inf/is_bad/is_nan also +-inf), int %r, bool %r, str %r, dates %r, datetimes, date strings, restricted to the method's documented domain "
        "(all pairs / triples for 2- and 3-argument methods; int / bool operands also as null-free int64 / bool columns); aggregators: project(group_by) over ALL groups of 1..%d rows over %r / %r; "
        "windowed methods: extend(partition_by) and ordered window methods: extend(partition_by, order_by) over the same groups (as sequences in window order); the whole-column sum: %d one-group tables. "
        "In addition every method with a CONSTANT parameter (and every two-argument method, with a constant second operand) is run again as %d constant-parameter variants: "
        "around decimals -2..2 and round/floor/ceil over the wider grid %r, powers with exponents 1/2/0/-1/0.5, binary operators and maximum/minimum/fmax/fmin with the constants -1/0/2.5, "
        "%% // mod remainder with 1/2/3, coalesce of two columns (null with null) and with 0/-1.5, if_else/where with constant branches, is_in as list / singleton / other members / strings, "
        "mapv without default / negative default / empty-string key, trimstr with five (start, stop) pairs, concat with constants, date formats other than the defaults, shift by 1/2/3/-1/-2, sums of the constants 0/2/-1. "
        "Backends: Pandas and SQLite when the catalog marks the row 'y', Polars whenever it does not raise; PostgreSQL not executable (skipped). "
        "A case is NONTRIVIAL iff the backend returned a value for that row/group and it was compared with doc_meaning (status ok or fail); raising / skipped / not-claimed cases are not."
        % (n, O.NUM_GRID, O.INT_GRID, O.BOOL_GRID, O.STR_GRID, [str(d) for d in O.DATE_GRID[1:]], sc["max_group"], O.GROUP_GRIDS["num"], O.GROUP_GRIDS["bool"], sc["whole_column_tables"], nv, O.NUMR_GRID[len(O.NUM_GRID):])
    )
    rep.bounded_label = "bounded: %d catalogued methods + %d constant-parameter variants x operand grids (7-13 numeric / 5 int / 3 bool / 4-5 str values per operand) / all groups <= %d rows x 3 backends" % (n, nv, sc["max_group"])
    rep.assumptions = [
        "doc_meaning (cbc.oracles_b) is written from the Term.* docstrings, the catalog's expression column and the definitions the docstring sections point to (numpy routines.math: missing in -> missing out; "
        "pandas GroupBy reference: aggregates skip missing items; sql_model.py: 'destination semantics' for the sign of mod/remainder) -- never from the implementations",
        "where the documentation pins no value the method's domain is restricted and the restriction is listed in coverage.domain_restrictions; methods whose documentation pins no value at all "
        "(_count, _ngroup, _uniform, dayofweek, weekofyear) are listed in coverage.methods_without_comparable_documentation and not compared",
        "constant parameters: an empty is_in list, an empty mapv dictionary and coalesce(None) cannot be written (the expression parser / builder raises), shift(0) is refused by the builder; "
        "rounding of exact halves is not documented: for a half either neighbour is accepted (Either), every other value is pinned",
        "the sum over a group without non-null items may be 0 or null (documented destination convention, as in C01)",
        "all operand rows (groups) of a method are evaluated in ONE table per column layout; a table that makes a back end raise is re-run row by row (group by group) with the same column types",
        "PostgreSQLModel column of the catalog: no PostgreSQL server here, not executed",
        "SQL text generated once per method by the real to_sql, executed through the real DBHandle.read_query of one SQLite handle per worker",
    ]
    rep.explanation = (
        "Bounded contract check: the real _extend_step/_project_step entries of the live Pandas and Polars dispatch tables and the real DBHandle.read_query are wrapped with the postcondition "
        "'r == doc_meaning(method)(operands)' for a single-method step and run over enumerated operand grids; nothing is proved for operands outside the grids."
    )
    rep.functions_under_contract = c05.FUNCTIONS_UNDER_CONTRACT
    rep.trusted_base = ["sqlite3", "pandas", "polars", "cbc.oracles_b.doc_meaning"]
    run_bounded(rep, "cbc.c05", tier, seed, timeout_s=240 if tier == "quick" else 900)
    return rep


def replay(payload) -> int:
    return 1 if c05.replay_case(payload["case"]) else 0
