"""C27: windowed and ordered window functions are computed per ordered partition (hybrid; bounded part in cbc.c27)."""
from vlib.core import Report, run_bounded
from cbc import c27

PID = "C27"


def run(tier: str, seed: int) -> Report:
    sc = c27.scope(tier)
    specs = c27.window_specs()
    nt = {"p%d/o%d" % (a, b): len(c27.tables(a, b, sc["max_rows"])) for a in (1, 2) for b in (0, 1, 2)}
    rep = Report(property_id=PID, level="other")
    rep.exhaustive = False
    rep.rule = (
        "cases = (window specification, table, backend, function): %d window specifications = {1, 2 partition columns} x {no order (group aggregates only), "
        "1 or 2 order columns x every reversal mask}; functions = %s (ordered window functions on a non-null column x and, for cumsum/cumcount/bfill/ffill/sum/count, "
        "on a column z with nulls; group aggregates without an order and -- where the builder accepts them -- with one); tables d(p1,p2,o1,o2,x,z) = ALL tables with <= %d rows "
        "whose (partition, order) key tuples are pairwise distinct over partition values (p1,p2) in {(1,1),(2,1)[,(1,2)]} and order values o1 in {1,2,3} / (o1,o2) in {(1,1),(1,2),(2,1)}, "
        "i.e. exactly the tables over these domains whose window order is total within each partition, x every assignment of z in {None,2,3} (x in {2,3}: every assignment per key set, "
        "paired with the z assignments by rotation): %s tables. Backends per function: Pandas always; SQLite iff op_catalog.methods_table (read live) marks the "
        "(method, windowed/ordered) use 'y'; Polars when it does not raise. A case is NONTRIVIAL iff the backend returned and the function's column was compared on a non-empty table."
        % (len(specs), [f[1] for f in c27.FUNCTIONS], sc["max_rows"], nt)
    )
    rep.bounded_label = "bounded: %d window specs x %d functions x all total-order tables <= %d rows (%s tables per key layout) x 3 backends" % (
        len(specs),
        len(c27.FUNCTIONS),
        sc["max_rows"],
        "/".join(str(v) for v in nt.values()),
    )
    rep.assumptions = [
        "function meanings (cbc.oracles_b.ref_window_fn) are written from the Term.* docstrings: cumulative sum/prod/max/min of the items so far (missing items skipped: the running value so far), "
        "_row_number 1..n, cumcount = cumulative number of non-NA cells, shift(n) = item n rows earlier, first/last item in the declared order, ffill/bfill = previous/next non-missing item, "
        "group aggregates over the whole partition",
        "rank is compared only on partitions of distinct non-missing items (= 1 + number of smaller items); how ties and missing items are ranked is not documented",
        "no nulls in partition / order columns (null ordering is a separate known divergence); reversed columns sort descending; ties cannot occur (generated tables only)",
        "the sum over a partition without non-null values may be 0 or null (documented destination convention, as in C01)",
        "all functions a back end supports under one window specification are computed by ONE extend step; a Polars batch that raises is re-run function by function and raising functions are counted as skipped",
        "SQL text generated once per (window, function set) by the real to_sql (data independent), executed per table through the real DBHandle.read_query",
    ]
    rep.explanation = (
        "Bounded contract check: the real _extend_step entries of the live Pandas and Polars dispatch tables and the real DBHandle.read_query are wrapped with the postcondition "
        "'every row keeps its input values and gets f over its ordered partition' and run over an enumerated small scope; nothing is proved for inputs outside the scope."
    )
    rep.functions_under_contract = c27.FUNCTIONS_UNDER_CONTRACT
    rep.trusted_base = ["sqlite3", "pandas", "polars", "cbc.oracles_b.ref_window"]
    run_bounded(rep, "cbc.c27", tier, seed, timeout_s=300 if tier == "quick" else 1500)
    return rep


def replay(payload) -> int:
    return 1 if c27.replay_case(payload["case"]) else 0
