"""C18: results ignore input row order, and order_rows orders and limits (bounded contract check)."""
from vlib.core import Report
from cbc import c18

PID = "C18"


def run(tier: str, seed: int) -> Report:
    sc = c18.scope(tier)
    rep = Report(property_id=PID, level="other")
    rep.exhaustive = False
    rep.rule = (
        "evaluations = (pipeline, data set, back end, input variant): chains of %s public operators from cbc.common.gen_pipelines "
        "(quick: all single operators and every second operator pair, the half chosen by VERIF_SEED; thorough: all pairs and every second triple of the reduced grid; two-table DAGs) x data sets whose table d has >= 2 rows (<= %d rows) x back ends "
        "Pandas, Polars (when it returns), SQLite x variants: ALL permutations of the rows of d, reversal and rotation of every other "
        "input table, and for Pandas/SQLite three re-indexings of all inputs (shuffled ints, string labels, duplicate labels). "
        "NONTRIVIAL = a variant evaluation that returned and was compared with the same back end's result on the original input "
        "(multiset), plus the order/limit check for pipelines ending in order_rows. Cases with a window ordering that is not total "
        "within a partition on the data, or a mid-chain limit cutting through ties, are skipped and counted (coverage.case_status_counts)."
        % (sc["depths"], sc["max_rows"])
    )
    rep.bounded_label = "bounded: chains of depth %s, data sets per pipeline by depth %s, tables <= %d rows (all %s permutations of d), 3 back ends" % (
        sc["depths"],
        sc["per_spec"],
        sc["max_rows"],
        "24" if sc["max_rows"] >= 4 else "6",
    )
    rep.assumptions = [
        "a result the semantics leave undetermined (window order with ties, limit cutting through ties) is excluded, not compared",
        "null placement in order_rows is back-end specific and accepted if consistent within a column: Pandas nulls last, SQLite nulls first ascending / last descending, Polars nulls first",
        "with ties crossing a final limit any valid choice of tied rows is accepted",
    ]
    rep.explanation = (
        "Bounded run-time contract check (no proof): the real executors are run on every permutation / re-indexing of small inputs and "
        "the results compared with our own multiset comparison; order_rows output is checked against an independent sortedness / "
        "first-n-prefix predicate (cbc.common.check_order_limit)."
    )
    rep.functions_under_contract = c18.FUNCTIONS_UNDER_CONTRACT
    rep.trusted_base = ["sqlite3", "pandas", "polars", "cbc.common.frames_equiv", "cbc.common.check_order_limit"]
    c18.bounded(rep, tier, seed)
    return rep


def replay(payload) -> int:
    return 1 if c18.replay_case(payload["case"]) else 0
