"""C23 connected_components labels each edge by its component's least vertex."""
from vlib.core import Report, run_bounded
from pyvc.check import run_proofs, attach_bounded_witness

MODS = ["contracts.c23_cc"]
KEYS = ["Component.__init__", "connected_components"]


def run(tier, seed):
    rep = Report(property_id="C23", level="proof")
    rep.rule = ("proof part: ensures clauses and the two loop invariants (outer: per edge, inner: per member of the donor component) of "
                "connected_components, one VC per path; bounded ride-along: all edge lists up to the stated size against a BFS reference; "
                "non-trivial = at least two edges")
    rep.bounded_label = "bounded ride-along (not counted as proved): all edge lists with <= %d edges over %d vertices" % ((4, 4) if tier == "quick" else (5, 5))
    rep.assumptions += [
        "vertices modelled as mathematical integers (a finite totally ordered vertex set embeds into them); hashing/equality of vertices consistent with that order",
        "the blocks kept by the algorithm are shown to be an equivalence that contains every edge and refines EVERY equivalence containing the edges "
        "(ghost R, an arbitrary uninterpreted one); that this characterises connected components is a three-line argument on paper, not mechanised",
        "set iteration order is arbitrary (inner loop); python dict / set semantics as in pyvc §3.6; termination not proved",
    ]
    run_proofs(rep, MODS, KEYS)
    run_bounded(rep, "cbc.c23", tier, seed, timeout_s=240 if tier == "quick" else 900)
    attach_bounded_witness(rep)
    return rep


def replay(payload):
    from cbc import c23
    case = payload.get("case")
    if case is None:
        print("no concrete input in this replay file; obligation:", payload.get("obligation"))
        return 1
    return 1 if c23.replay_case(case) else 0
