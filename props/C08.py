"""C08: results have exactly the columns the pipeline declares (bounded contract check, class B)."""
from vlib.core import Report
from cbc import c08

PID = "C08"


def run(tier: str, seed: int) -> Report:
    sc = c08.scope(tier)
    rep = Report(property_id=PID, level="other")
    rep.exhaustive = False
    rep.rule = (
        "evaluations = (pipeline prefix, data set, back end): every prefix (0..n steps, i.e. every intermediate node) of every chain "
        "of %s public operators from cbc.common.gen_pipelines (all operator pairs; triples over the reduced grid at thorough; "
        "two-table DAGs; includes steps that overwrite or drop every non-key column) x %d data sets (tables <= %d rows; the all-empty "
        "data set for at least every second pipeline) x back ends Pandas, Polars eager, Polars lazy, SQLite. An evaluation is NONTRIVIAL "
        "iff the back end returned a table whose columns were compared with ops.column_names (set, duplicates, and order after "
        "select_columns); evaluations where the back end raised are counted in coverage.status_counts only."
        % (sc["depths"], sc["per_spec"], sc["max_rows"])
    )
    rep.bounded_label = "bounded: chains of depth %s and all their prefixes, %d data sets per pipeline (depth 3: %d), tables <= %d rows, 4 back ends" % (
        sc["depths"],
        sc["per_spec"],
        sc["depth3_per_spec"],
        sc["max_rows"],
    )
    rep.assumptions = [
        "PostgreSQL is not available (see C02); SQL is executed on SQLite only",
        "column order is only defined after select_columns (README: column order is not preserved except at select-columns steps)",
        "a back end that raises returns no table and is outside this property",
    ]
    rep.functions_under_contract = c08.FUNCTIONS_UNDER_CONTRACT
    rep.trusted_base = ["sqlite3", "pandas", "polars"]
    c08.bounded(rep, tier, seed)
    return rep


def replay(payload) -> int:
    return 1 if c08.replay_case(payload["case"]) else 0
