"""C13: expression text is parsed with Python's precedence and meaning (bounded contract check)."""
from vlib.core import Report, run_bounded
from cbc import c13

PID = "C13"


def run(tier: str, seed: int) -> Report:
    sc = c13.scope(tier)
    rep = Report(property_id=PID, level="other")
    rep.exhaustive = False
    rep.rule = (
        "cases = expression texts: ALL operator trees with <= 3 operators (binary + - * / // %% ** < <= > >= == != and or, unary minus, not, and "
        "two-operator comparison chains a < b < c)%s; leaves filled left to right from %d of 3 fixed operand patterns over {x, y, 2, 3, 0.5}; every tree "
        "rendered (a) with the minimal parentheses Python needs (found by deleting every pair whose removal keeps Python's ast shape) and (b) fully "
        "parenthesised (redundant parentheses). Oracle = Python: ast.parse for the tree (mapped: -<const> is a constant, `not a` is `a == False`, "
        "+ * and or flattened along the left spine), eval() for values on the 25 cells x, y in {-2,-1,1,2,0.5} (frames with homogeneous int64/float64 "
        "columns, one-row frames when a frame raises). Cells where Python and the DSL do not define the operators identically are skipped and counted "
        "(division by zero, int ** negative int, negative ** fraction, overflow, arithmetic on a bool, bool-vs-number comparison, and/or/not of a number). "
        "Texts the DSL itself rejects are outside the accepted grammar (counted, not nontrivial). NONTRIVIAL iff both grammars parsed the text, the "
        "trees were compared and >= 1 value cell was compared." % (("; plus a 1/%d shard (rotated by the seed) of the trees with 4 operators" % sc["n4_shard"]) if sc["max_ops"] >= 4 else "", sc["patterns_small"])
    )
    rep.bounded_label = "bounded: all expression texts with <= 3 operators%s, minimal and redundant parentheses, 25 (x, y) value cells each" % (
        " + 1/%d of the 4-operator texts" % sc["n4_shard"] if sc["max_ops"] >= 4 else ""
    )
    rep.assumptions = [
        "Python's own grammar (ast.parse) and eval() are the oracle for precedence, associativity and meaning",
        "Term docstrings in expr_rep.py document no convention different from Python's for %% and // (the Pandas executor uses numpy.mod / numpy.floor_divide, which follow Python's sign convention), so negative operands are NOT skipped",
        "the DSL's documented encodings are accepted as equal trees: -<constant> folded into the constant, `not a` as `a == False`, n-ary + * and or",
    ]
    rep.explanation = "run-time contract on the real parser, printer and Pandas executor over an enumerated scope; no proof part in this module"
    rep.functions_under_contract = c13.FUNCTIONS_UNDER_CONTRACT
    rep.trusted_base = ["python ast / eval", "pandas", "numpy"]
    run_bounded(rep, "cbc.c13", tier, seed, timeout_s=(300 if tier == "quick" else 1200))
    return rep


def replay(payload) -> int:
    return 1 if c13.replay_case(payload["case"]) else 0
