"""C07: pipeline composition equals sequential application and is associative (bounded contract check)."""
from vlib.core import Report, run_bounded
from cbc import c07

PID = "C07"


def run(tier: str, seed: int) -> Report:
    sc = c07.scope(tier)
    rep = Report(property_id=PID, level="other")
    rep.exhaustive = False
    rep.rule = (
        "cases = an operator chain from the typed enumerator cbc.common.gen_pipelines (every operator kind incl. select_rows, map_columns with "
        "deletions, natural_join / concat_rows against free second tables and against a re-used sub-pipeline) cut into consecutive segments a | b (| c); "
        "segment j > 0 reads a table m<j> holding exactly the previous segment's result columns, so the pairs are composable by construction. "
        "ALL pairs of single operators (full parameter grid, depth-2 chains); over the reduced grid %s of the depth-3 chains, each as 1+2, 2+1 and as the "
        "triple 1+1+1%s. Pairs: four composition routes (a >> b when b reads one table; DataOpArrow >> DataOpArrow; replace_leaves; eval with a map of pipelines), "
        "each composed pipeline evaluated on %d data sets (tables <= %d rows incl. empty, null, duplicate rows) and compared with running the segments one "
        "after the other; DataOpArrow.dom/cod and ViewRepresentation.dom()/cod() compared with the real input / output columns. Triples: (a>>b)>>c and a>>(b>>c) "
        "as pipelines and as DataOpArrows must both build and give the sequential result; whether the two are == is only counted (extra: assoc_structurally_different_but_same_result). Data sets on which the result is not determined (ties in a window "
        "order or at a limit cut) or on which convert_records' keying requirement is violated are skipped and counted. NONTRIVIAL iff at least one composed "
        "result was returned and compared with the sequential result."
        % (
            "all" if sc["d3_shard"] == 1 else "1/%d (rotated by the seed)" % sc["d3_shard"],
            ("; 1/%d of the depth-4 chains as 2+2 (a quarter of them also as 1+2+1)" % sc["d4_shard"]) if sc["d4_shard"] else "",
            sc["per_case"],
            sc["max_rows"],
        )
    )
    rep.bounded_label = "bounded: all pairs of single operators + %s depth-3 chains (pairs and triples)%s, %d data sets each, 4 composition routes" % (
        "all" if sc["d3_shard"] == 1 else "1/%d of the" % sc["d3_shard"],
        (" + 1/%d of the depth-4 chains" % sc["d4_shard"]) if sc["d4_shard"] else "",
        sc["per_case"],
    )
    rep.assumptions = [
        "Pandas is the executor on both sides of every comparison",
        "`a >> b` for a pipeline a is only defined when b reads exactly one table (ViewRepresentation.act_on selects the table by key); with further free tables the other three routes are used",
        "an intermediate order_rows without limit may be dropped by composition: results are compared as multisets, plus the order-key sequence when the LAST operator is order_rows",
    ]
    rep.explanation = "run-time contract on the real composition entry points over an enumerated scope; no proof part in this module"
    rep.functions_under_contract = c07.FUNCTIONS_UNDER_CONTRACT
    rep.trusted_base = ["pandas", "cbc.common.frames_equiv"]
    run_bounded(rep, "cbc.c07", tier, seed, timeout_s=(300 if tier == "quick" else 1500))
    return rep


def replay(payload) -> int:
    return 1 if c07.replay_case(payload["case"]) else 0
