"""C22: schema-check decorators raise exactly on schema violations (bounded contract check)."""
from vlib.core import Report, run_bounded
from cbc import c22

PID = "C22"


def run(tier: str, seed: int) -> Report:
    rep = Report(property_id=PID, level="other")
    rep.exhaustive = False
    sz = c22.scope_sizes(tier)
    rep.rule = (
        "cases = (decorator, switch on/off, declared argument specifications, return specification, call): one declared argument x every specification x every "
        "value, passed positionally / by keyword / not passed; return specification x every returned value with arg_specs omitted / empty / a conforming and a "
        "violating declared argument; two declared arguments: all pairs of the core specifications x pairs of representative values (quick: 1/3 of the value "
        "pairs, rotated by the seed) in the call styles (pos,pos) (pos,kw) (kw,kw) (y not passed) (y undeclared); SchemaMock. Each call runs the REAL decorator; "
        "'raises TypeError' is compared with the oracle cbc.c22.expected_violation written from the property statement, a normal return is compared by identity "
        "with the wrapped function's own object; every case is repeated with SchemaCheckSwitch off (must not raise). NONTRIVIAL = compared with the oracle (all cases)."
    )
    rep.bounded_label = (
        "bounded: %d specifications of depth <= 2 over {int, str, float, 1, 'a', {int,str}, {1,'a'}, {'x':int}, {'x':{int,float},'y':str}, {'x':1}} (+ None), "
        "values {1, 'a', 2.5, None, True} + %d pandas and %d polars frames with <= 2 rows (columns right / wrong / missing / extra / null-containing / all-null), "
        "%d values per argument in the two-argument product, switch on and off"
        % (sz["specifications"], sz["pandas_frames"], sz["polars_frames"], sz["two_arg_values"])
    )
    rep.assumptions = [
        "'has one of the declared types' is Python isinstance: True satisfies a declared int; numpy.float64 satisfies float, numpy.int64 does not satisfy int",
        "the values of a frame column are the objects the frame hands out on iteration (as in the library's own non_null_types_in_frame); pandas nullable Int64 therefore holds numpy.int64",
        "null cells (None, NaN, pandas.NA, NaT) have no type; empty and all-null columns conform; extra frame columns are allowed ('at least declared columns')",
        "a scalar None passed for a declared argument or returned under a return specification counts as a missing value and must raise (nulls are 'missingness' in the docstring; None has none of the declared types and is not a data frame)",
        "a declared argument the call does not pass (default used) is missing and must raise; omitting arg_specs (documented default None) declares no argument",
        "the oracle is cbc.c22.norm_spec / conforms / expected_violation",
    ]
    rep.explanation = "other: run-time contract on the real decorators over an enumerated scope of specifications and calls, compared with an oracle written from the property statement"
    rep.functions_under_contract = c22.FUNCTIONS_UNDER_CONTRACT
    rep.trusted_base = ["pandas", "polars", "cbc.c22.expected_violation"]
    run_bounded(rep, "cbc.c22", tier, seed, timeout_s=(240 if tier == "quick" else 900))
    return rep


def replay(payload) -> int:
    return 1 if c22.replay_case(payload["case"]) else 0
