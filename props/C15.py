"""C15: results do not depend on how tables and columns are named (bounded contract check)."""
from vlib.core import Report, run_bounded
from cbc import c15

PID = "C15"


def run(tier: str, seed: int) -> Report:
    sc = c15.scope(tier)
    rep = Report(property_id=PID, level="exploration")
    rep.exhaustive = False
    rep.rule = (
        "cases = (pipeline, input name, internal name): pipelines = the operator corpus cbc.common.gen_pipelines (depth 1 full grid, depth 2 reduced grid%s; "
        "one- and two-table chains); internal names = every identifier-like string constant, f-string skeleton and 'literal' + str(..) / name + 'literal' "
        "concatenation harvested with Python's ast from the CURRENT data_algebra source (pandas_base.py, polars_model.py, sql_model.py, near_sql.py, SQLite.py, "
        "view_representations.py) that looks internal (temp / tmp / _da_ / data_algebra / orig_index, generated sub-query names <step>_N with N in 0..2, "
        "column + suffix for every schema column, the SQL aliases a / b, table_values); for each (pipeline, internal name) %d input name(s) of the pipeline "
        "(a column name, renamed in every input table that has it, or a table name; rotating deterministically) is renamed to the internal name, one at a time, "
        "in the pipeline and in the data. Each renamed pipeline is run on Pandas, Polars (when Polars returns for the original) and SQLite on %d non-empty "
        "data set(s) and compared with the SAME back end's result for the original names with the result column renamed (multiset of rows); both must raise "
        "the same exception type or neither. In addition %d SQL keywords / niladic functions (null, true, current_date, group, order, select, table, index, values, default, check, from, ... "
        "lower and UPPER case) are tried as user COLUMN names for the columns each pipeline mentions in its operators (single-operator pipelines: every mentioned "
        "column, both cases; two-operator pipelines: one mentioned column). Internal names already used by the pipeline are skipped. NONTRIVIAL iff at least one back end returned for "
        "both namings and the results were compared." % ("" if sc["d2_shard"] == 1 else " 1/%d shard rotated by the seed" % sc["d2_shard"], sc["positions"], sc["per_case"], len(c15.keyword_names()))
    )
    rep.bounded_label = "bounded: operator-pair corpus x all harvested internal names x %d renamed input name(s) each, 3 back ends, %d data set(s)" % (sc["positions"], sc["per_case"])
    rep.assumptions = [
        "a consistent renaming renames a column NAME in every input table that has it (join keys stay aligned)",
        "each back end is compared with itself, so known cross-back-end differences do not matter here",
        "the harvest must find at least 20 names, else the run is a checker error (harvester out of date)",
    ]
    rep.explanation = "exploration: run-time contract on the three executors over an enumerated scope of renamings to internally used names"
    rep.functions_under_contract = c15.FUNCTIONS_UNDER_CONTRACT
    rep.trusted_base = ["pandas", "polars", "sqlite3", "cbc.common.frames_equiv"]
    run_bounded(rep, "cbc.c15", tier, seed, timeout_s=(300 if tier == "quick" else 1500))
    return rep


def replay(payload) -> int:
    return 1 if c15.replay_case(payload["case"]) else 0
