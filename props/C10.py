"""C10 Columns not reported as used never influence a pipeline's result."""
from vlib.core import Report, run_bounded
from pyvc.check import run_proofs, attach_bounded_witness

MODS = ["contracts.c10_columns_used"]


def run(tier, seed):
    from contracts.c10_columns_used import KEYS
    rep = Report(property_id="C10", level="proof")
    rep.rule = ("proof part: for each of the 13 node classes, need_i(N,U) ⊆ columns_used_from_sources(U)[i] ⊆ columns(source_i) and one entry per source; the recursion step columns_used_implementation_ (records only grow, every source re-asked with the node's full record), "
                "one VC per path (need = spec function written from the operator documentation); bounded ride-along: perturbing every unreported input "
                "column and narrowing the table descriptions on enumerated pipelines (Pandas and SQLite); non-trivial = at least one perturbation evaluated")
    rep.bounded_label = "bounded ride-along (not counted as proved): operator chains of depth <= %s over tables <= %d rows" % (("2", 3) if tier == "quick" else ("3 (sampled)", 4))
    rep.assumptions += [
        "spec function need_i is the executors' true dependency: tied to Pandas/SQLite only by the bounded perturbation run",
        "Term.get_column_names adds exactly cols(e) (assumed contract; cols is the same spec function the frame axiom of C06 uses)",
        "constructor facts used as preconditions (window columns exist and are not assigned, mapping injective and collision-free, filter parsed against the source): established by the constructors, which are under contract in C26",
        "DAG level: one call of columns_used_implementation_ is proved against the contract of the calls it makes (records only grow; this node's record contains the request; every source is "
        "re-asked with what this node needs given its FULL record); the induction over the DAG that lifts this and the per-node obligations to columns_used() is a paper argument, termination is not proved; "
        "the top-level columns_used() wrapper (initial records for the tables, copies returned) is covered by the bounded run only",
    ]
    run_proofs(rep, MODS, KEYS)
    run_proofs(rep, ["contracts.c10_dag"], ["ViewRepresentation.columns_used_implementation_"])
    run_bounded(rep, "cbc.c10", tier, seed, timeout_s=400 if tier == "quick" else 1500)
    attach_bounded_witness(rep)
    return rep


def replay(payload):
    from cbc import c10
    case = payload.get("case")
    if case is None:
        print("no concrete input in this replay file; obligation:", payload.get("obligation"))
        return 1
    return 1 if c10.replay_case(case) else 0
