#!/usr/bin/env python3
"""maintenance: print the per-property status table (markdown) from the evidence files of the last runs"""
import json, glob, os
print("| id | level | targets under contract | obligations discharged / generated | undecided | bounded cases (non-trivial) | known findings hit | wall s |")
print("|---|---|---|---|---|---|---|---|")
tot_o = tot_d = tot_f = 0
for p in sorted(glob.glob("evidence/C*.json")):
    e = json.load(open(p)); c = e["coverage"]
    fu = c.get("functions_under_contract", [])
    pv = [f for f in fu if "sha" in f]
    tot_o += c.get("obligations", 0); tot_d += c.get("discharged", 0); tot_f += len(pv)
    print("| %s | %s | %d | %d / %d | %d | %s (%s) | %d | %s |" % (e["property_id"], e["level"], len(pv), c.get("discharged", 0), c.get("obligations", 0),
          len(c.get("undecided_obligations", [])), c.get("evaluations", 0), c.get("distinct_nontrivial", 0), len(c.get("known_finding_hits", {})), e["wall_s"]))
print("\ntotal: %d obligations discharged of %d generated, %d functions under contract" % (tot_d, tot_o, tot_f))
