#!/bin/bash
# maintenance: run every quick check of MANIFEST.json on the unchanged tree; prints one line per check
cd "$(dirname "$0")"
TIER=${1:-quick}
for p in $(.venv/bin/python -c "import json; print(' '.join(c['property_id'] for c in json.load(open('MANIFEST.json'))['checks']))"); do
  s=$(date +%s)
  out=$(./check $p --tier $TIER 2>&1); code=$?
  echo "$p exit=$code $(( $(date +%s) - s ))s known=$(echo "$out" | grep -c '^KNOWN-FINDING') viol=$(echo "$out" | grep -c '^VIOLATION') $(echo "$out" | grep -E '^VIOLATION|CHECKER-ERROR' | head -2 | cut -c1-200 | tr '\n' ' ')"
done
