"""Ghost semantics used by the C06 contracts (z3 side).

A table is T : Atom -> ColVec (whole columns).  ev(e, T) is uninterpreted with the frame axiom:
ev(e,T1) = ev(e,T2) whenever T1, T2 agree on cols(e) ∪ W, W = the window (partition/order) columns
of the step.  ext(ops, T)[k] = ev(ops[k], T) if k in ops else T[k]  (simultaneous assignment).
"""
import z3
from pyvc.values import fresh_name


class TableSem:
    def __init__(self, S, W):
        self.S = S
        self.ColVec = S.sort("ColVec")
        self.Expr = S.sort("Expr")
        self.Table = z3.ArraySort(S.Atom, self.ColVec)
        self.cols = S.func("cols", self.Expr, z3.ArraySort(S.Atom, z3.BoolSort()))
        self.ev = S.func("ev", self.Expr, self.Table, self.ColVec)
        self.diff = S.func("ev_diff", self.Expr, self.Table, self.Table, S.Atom)
        self.W = W  # Array(Atom,Bool)

    def axioms(self):
        e = z3.Const(fresh_name("e"), self.Expr)
        t1 = z3.Const(fresh_name("t1"), self.Table)
        t2 = z3.Const(fresh_name("t2"), self.Table)
        d = self.diff(e, t1, t2)
        reads = z3.Or(self.cols(e)[d], self.W[d])
        return [
            z3.ForAll([e, t1, t2], z3.Implies(z3.Implies(reads, t1[d] == t2[d]), self.ev(e, t1) == self.ev(e, t2)),
                      patterns=[z3.MultiPattern(self.ev(e, t1), self.ev(e, t2))]),
            z3.ForAll([e], z3.Not(self.cols(e)[self.S.NONE]), patterns=[self.cols(e)]),
        ]

    def ext(self, dom, val, tb, facts):
        r = z3.Const(fresh_name("ext"), self.Table)
        k = z3.Const(fresh_name("k"), self.S.Atom)
        facts.append(z3.ForAll([k], r[k] == z3.If(dom[k], self.ev(val[k], tb), tb[k]), patterns=[r[k]]))
        return r

    def ext_at(self, dom, val, tb, k):
        """ext(ops, tb)[k] unfolded at one column."""
        return z3.If(dom[k], self.ev(val[k], tb), tb[k])

    def frame_instance(self, e, t1, t2):
        """one ground instance of the frame axiom (a sound hint for the solver)."""
        d = self.diff(e, t1, t2)
        reads = z3.Or(self.cols(e)[d], self.W[d])
        return z3.Implies(z3.Implies(reads, t1[d] == t2[d]), self.ev(e, t1) == self.ev(e, t2))
